"""Subprocess entry for C09: generate one document in a fresh interpreter (own PYTHONHASHSEED) and print the tree hashes.
usage: python -m mc.gen_proc '<json args>'   args: {doc, warm:[docs], root, out, core, clock_offset}"""
import datetime as _dt
import hashlib
import json
import os
import sys
import time as _time


def main():
    a = json.loads(sys.argv[1])
    off = a.get("clock_offset", 0)
    if off:
        real_time = _time.time
        _time.time = lambda: real_time() + off

        class FakeDT(_dt.datetime):
            @classmethod
            def now(cls, tz=None):
                return _dt.datetime.fromtimestamp(real_time() + off, tz)

        _dt.datetime = FakeDT
    from mc import sandbox
    from mc.space import docs

    tmp = a["root"] + "-tmp"
    os.makedirs(tmp, exist_ok=True)
    os.environ["TMPDIR"] = tmp
    import tempfile

    tempfile.tempdir = tmp
    for i, w in enumerate(a.get("warm", [])):
        sandbox.generate(docs.get(w, a.get("repo", "/repo")), os.path.join(a["root"] + "-warm%d" % i), reset=False)
    files, err = sandbox.generate(docs.get(a["doc"], a.get("repo", "/repo")), a["root"], output_package=a["out"], core_package=a.get("core"), reset=False)
    if err is not None:
        print(json.dumps({"rejected": f"{type(err).__name__}: {err}"[:300]}))
        return
    out = {}
    for dp, dn, fn in os.walk(a["root"]):
        dn.sort()
        for f in sorted(fn):
            p = os.path.join(dp, f)
            data = open(p, "rb").read()
            # the only place the output location may legitimately appear is nowhere; hash the bytes as they are
            out[os.path.relpath(p, a["root"])] = hashlib.sha256(data).hexdigest()
    print(json.dumps({"hashes": out, "mentions_root": [k for k in out if a["root"].encode() in open(os.path.join(a["root"], k), "rb").read()]}))


if __name__ == "__main__":
    main()
