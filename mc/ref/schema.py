"""Boring reference resolver for component schemas (shares no code with the repository).

expected(doc) -> {schema_name: {"kind": "object", "fields": {json_key: [required, kind]}} | {"kind": <kind>}}

kind descriptors (JSON-able, order-insensitive where the spec is):
    "int" "float" "str" "bool" "any"
    ["ref", Name]            reference to the model of a declared schema
    ["list", kind]
    ["map", kind]
    ["obj", {key: [required, kind]}]      inline object (may be promoted to a model under any name)
    ["union", [kind, ...]]   sorted by their JSON text
    ["enum", "str"|"int"]
"""
from __future__ import annotations

import json

PRIM = {"integer": "int", "number": "float", "string": "str", "boolean": "bool"}


def _name_of_ref(ref):
    return ref.rsplit("/", 1)[-1]


def kind_of(node, schemas):
    if not isinstance(node, dict):
        return "any"
    if "$ref" in node:
        return ["ref", _name_of_ref(node["$ref"])]
    if "enum" in node:
        return ["enum", "int" if node.get("type") == "integer" else "str"]
    for kw in ("oneOf", "anyOf"):
        if kw in node:
            ks = [kind_of(m, schemas) for m in node[kw]]
            ks = sorted(ks, key=lambda k: json.dumps(k, sort_keys=True))
            return ["union", ks]
    if "allOf" in node:
        fields = {}
        merge_allof(node, schemas, fields, set())
        return ["obj", fields]
    t = node.get("type")
    if isinstance(t, list):
        t = [x for x in t if x != "null"]
        t = t[0] if t else None
    if t in PRIM:
        return PRIM[t]
    if t == "array":
        return ["list", kind_of(node.get("items"), schemas)]
    if t == "object" or "properties" in node or "additionalProperties" in node:
        if node.get("properties"):
            return ["obj", fields_of_object(node, schemas)]
        ap = node.get("additionalProperties")
        if isinstance(ap, dict):
            return ["map", kind_of(ap, schemas)]
        return ["map", "any"]
    return "any"


def fields_of_object(node, schemas):
    req = set(node.get("required", []) or [])
    return {k: [k in req, kind_of(v, schemas)] for k, v in (node.get("properties") or {}).items()}


def merge_allof(node, schemas, fields, seen):
    """fields of an object schema = union over allOf members (resolved recursively) and own properties;
    required = union of every member's required list."""
    req = set()

    def visit(n, seen):
        if "$ref" in n:
            name = _name_of_ref(n["$ref"])
            if name in seen or name not in schemas:
                return
            visit(schemas[name], seen | {name})
            return
        for m in n.get("allOf", []) or []:
            visit(m, seen)
        for k, v in (n.get("properties") or {}).items():
            fields[k] = [False, kind_of(v, schemas)]
        req.update(n.get("required", []) or [])

    visit(node, seen)
    for k in fields:
        fields[k][0] = k in req
    return fields


def expected(doc):
    schemas = (doc.get("components") or {}).get("schemas") or {}
    out = {}
    for name, node in schemas.items():
        is_obj = isinstance(node, dict) and ("allOf" in node or "properties" in node or node.get("type") == "object")
        if is_obj and ("allOf" in node or "properties" in node):
            fields = {}
            merge_allof(node, schemas, fields, {name})
            out[name] = {"kind": "object", "fields": fields}
        else:
            out[name] = {"kind": kind_of(node, schemas)}
    return out
