"""Observers: project the generator's IR and its emitted model files onto the reference model's descriptors."""
from __future__ import annotations

import ast
import json
import os

PRIM = {"integer": "int", "number": "float", "string": "str", "boolean": "bool"}


def sanitize_class(name):
    from pyopenapi_gen.core.utils import NameSanitizer

    return NameSanitizer.sanitize_class_name(name)


# ----------------------------------------------------------------------------------------------
# IR level
# ----------------------------------------------------------------------------------------------
def ir_kind(s, declared, depth=0, seen=()):
    """declared: {sanitized class name: original schema name}"""
    if s is None:
        return "any"
    if depth > 12 or id(s) in seen:
        return "<deep>"
    seen = seen + (id(s),)
    target = getattr(s, "_refers_to_schema", None)
    if target is not None:
        return ir_kind(target, declared, depth + 1, seen)
    if s.name in declared and (s.type in (None, "object") or s.properties or s.all_of or s.one_of or s.any_of
                               or getattr(s, "_is_circular_ref", False) or s.enum or s.type in PRIM or s.type == "array"):
        return ["ref", declared[s.name]]
    if s.type in declared and not s.properties:
        return ["ref", declared[s.type]]
    if s.enum:
        return ["enum", "int" if s.type == "integer" else "str"]
    if s.one_of or s.any_of:
        ks = [ir_kind(m, declared, depth + 1, seen) for m in (s.one_of or s.any_of)]
        return ["union", sorted(ks, key=lambda k: json.dumps(k, sort_keys=True))]
    if s.type in PRIM:
        return PRIM[s.type]
    if s.type == "array":
        return ["list", ir_kind(s.items, declared, depth + 1, seen)]
    if s.properties:
        return ["obj", ir_fields(s, declared, depth + 1, seen)]
    ap = s.additional_properties
    if ap is not None and not isinstance(ap, bool):
        return ["map", ir_kind(ap, declared, depth + 1, seen)]
    if s.type == "object":
        return ["map", "any"]
    return "any"


def ir_fields(s, declared, depth=0, seen=()):
    req = set(s.required or [])
    return {k: [k in req, ir_kind(p, declared, depth + 1, seen)] for k, p in (s.properties or {}).items()}


def ir_manifest(ir, doc):
    """{declared name: {"count": n, "kind": "object", "fields": {...}} }"""
    raw = (doc.get("components") or {}).get("schemas") or {}
    declared = {sanitize_class(n): n for n in raw}
    out = {}
    for name in raw:
        sname = sanitize_class(name)
        hits = [s for k, s in ir.schemas.items() if s.name == sname or k == name]
        uniq = {id(s): s for s in hits}
        if not uniq:
            out[name] = {"count": 0}
            continue
        s = ir.schemas.get(sname) or ir.schemas.get(name) or list(uniq.values())[0]
        entry = {"count": len(uniq)}
        if s.properties or (s.type == "object" and not s.one_of and not s.any_of and not s.enum and not (
                s.additional_properties is not None and not isinstance(s.additional_properties, bool))):
            entry["kind"] = "object"
            entry["fields"] = ir_fields(s, declared)
        else:
            k = ir_kind(s, {k2: v for k2, v in declared.items() if k2 != sname})
            entry["kind"] = k
        entry["placeholder"] = bool(getattr(s, "_is_circular_ref", False) or getattr(s, "_from_unresolved_ref", False)
                                    or getattr(s, "_max_depth_exceeded_marker", False))
        out[name] = entry
    return out


# ----------------------------------------------------------------------------------------------
# comparison
# ----------------------------------------------------------------------------------------------
def kind_name(k):
    return k if isinstance(k, str) else k[0]


def diff_fields(exp, got, path=""):
    """yield (clause, discrepancy, detail) for field maps {key: [required, kind]}"""
    for k in exp:
        if k not in got:
            yield ("field-missing", f"{kind_name(exp[k][1])}", f"{path}{k}")
    for k in got:
        if k not in exp:
            yield ("field-extra", f"{kind_name(got[k][1])}", f"{path}{k}")
    for k in exp:
        if k not in got:
            continue
        er, ek = exp[k]
        gr, gk = got[k]
        if er != gr:
            yield ("required-mismatch", "spec-required-but-optional" if er else "spec-optional-but-required", f"{path}{k}")
        yield from diff_kind(ek, gk, f"{path}{k}")


def diff_kind(ek, gk, path):
    if ek == gk:
        return
    if ek == ["map", "any"] and isinstance(gk, list) and gk and gk[0] == "obj" and not gk[1]:
        return  # a free-form object is emitted as a field-less wrapper class around a dict: the same structural kind
    if kind_name(ek) != kind_name(gk):
        yield ("kind-mismatch", f"{kind_name(ek)}->{kind_name(gk)}", path)
        return
    n = kind_name(ek)
    if n == "ref":
        yield ("wrong-target", "ref", f"{path}: {ek[1]} vs {gk[1]}")
    elif n in ("list", "map"):
        yield from diff_kind(ek[1], gk[1], path + "[]")
    elif n == "obj":
        yield from diff_fields(ek[1], gk[1], path + ".")
    elif n == "union":
        if len(ek[1]) != len(gk[1]):
            yield ("kind-mismatch", "union-arity", path)
        else:
            for a, b in zip(ek[1], gk[1]):
                yield from diff_kind(a, b, path + "|")
    else:
        yield ("kind-mismatch", f"{ek}->{gk}", path)


# ----------------------------------------------------------------------------------------------
# generated-code level (through ast: an import failure owned by C01 must not hide a C02/C19 verdict)
# ----------------------------------------------------------------------------------------------
PY_PRIM = {"int": "int", "float": "float", "str": "str", "bool": "bool", "bytes": "str", "datetime": "str", "date": "str",
           "time": "str", "UUID": "str", "Any": "any", "object": "any", "Decimal": "float"}


class ModelIndex:
    """classes / aliases / enums emitted under <pkg>/models, read through ast"""

    def __init__(self, models_dir):
        self.classes = {}   # class name -> {"fields": [(py, ann_ast, has_default)], "load": {json: py}, "bases": [...], "file": rel}
        self.aliases = {}   # name -> ann_ast
        self.errors = []
        self.dups = []
        if not os.path.isdir(models_dir):
            return
        for fn in sorted(os.listdir(models_dir)):
            if not fn.endswith(".py") or fn == "__init__.py":
                continue
            p = os.path.join(models_dir, fn)
            try:
                src = open(p, encoding="utf-8").read()
                tree = ast.parse(src)
            except SyntaxError as e:
                self.errors.append((fn, e.msg))
                continue
            for node in tree.body:
                if isinstance(node, ast.ClassDef):
                    info = {"fields": [], "load": None, "bases": [ast.unparse(b) for b in node.bases], "file": fn, "members": []}
                    for st in node.body:
                        if isinstance(st, ast.AnnAssign) and isinstance(st.target, ast.Name):
                            ann = ast.unparse(st.annotation)
                            if ann.startswith("ClassVar"):
                                continue
                            info["fields"].append((st.target.id, st.annotation, st.value is not None))
                        elif isinstance(st, ast.Assign) and isinstance(st.targets[0], ast.Name):
                            info["members"].append(st.targets[0].id)
                        elif isinstance(st, ast.ClassDef) and st.name == "Meta":
                            for s2 in st.body:
                                if isinstance(s2, ast.Assign) and isinstance(s2.targets[0], ast.Name) \
                                        and s2.targets[0].id == "key_transform_with_load":
                                    try:
                                        info["load"] = ast.literal_eval(s2.value)
                                    except Exception:
                                        info["load"] = None
                    if node.name in self.classes:
                        self.dups.append(node.name)
                    self.classes[node.name] = info
                elif isinstance(node, ast.AnnAssign) and isinstance(node.target, ast.Name) and node.value is not None:
                    if node.target.id in self.aliases or node.target.id in self.classes:
                        self.dups.append(node.target.id)
                    self.aliases[node.target.id] = node.value
                elif isinstance(node, ast.Assign) and len(node.targets) == 1 and isinstance(node.targets[0], ast.Name) \
                        and node.targets[0].id not in ("__all__", "converter"):
                    self.aliases[node.targets[0].id] = node.value

    # -- descriptors -----------------------------------------------------------------------------
    def ann_kind(self, node, declared, stack=()):
        if node is None:
            return "any"
        if isinstance(node, ast.Constant):
            if node.value is None:
                return None
            if isinstance(node.value, str):
                try:
                    return self.ann_kind(ast.parse(node.value, mode="eval").body, declared, stack)
                except SyntaxError:
                    return "any"
            return "any"
        if isinstance(node, ast.Attribute):
            return PY_PRIM.get(node.attr, "any")
        if isinstance(node, ast.Name):
            n = node.id
            if n == "None":
                return None
            if n in declared:
                return ["ref", declared[n]]
            if n in PY_PRIM:
                return PY_PRIM[n]
            if n in stack:
                return "<recursive>"
            if n in self.aliases:
                return self.ann_kind(self.aliases[n], declared, stack + (n,))
            if n in self.classes:
                return self.class_kind(n, declared, stack + (n,))
            return ["unknown-name", n]
        if isinstance(node, ast.BinOp) and isinstance(node.op, ast.BitOr):
            parts = []

            def flat(x):
                if isinstance(x, ast.BinOp) and isinstance(x.op, ast.BitOr):
                    flat(x.left)
                    flat(x.right)
                else:
                    parts.append(x)

            flat(node)
            ks = [self.ann_kind(p, declared, stack) for p in parts]
            return self._union(ks)
        if isinstance(node, ast.Subscript):
            base = ast.unparse(node.value).split(".")[-1]
            sl = node.slice
            args = list(sl.elts) if isinstance(sl, ast.Tuple) else [sl]
            if base in ("List", "list", "Sequence", "Set", "set", "Iterable"):
                return ["list", self.ann_kind(args[0], declared, stack)]
            if base in ("Dict", "dict", "Mapping"):
                return ["map", self.ann_kind(args[-1], declared, stack)]
            if base == "Optional":
                return self.ann_kind(args[0], declared, stack)
            if base == "Union":
                return self._union([self.ann_kind(a, declared, stack) for a in args])
            if base == "Annotated":
                return self.ann_kind(args[0], declared, stack)
            if base == "Literal":
                return ["enum", "str"]
            return "any"
        return "any"

    @staticmethod
    def _union(ks):
        flat = []
        for k in ks:
            if k is None:
                continue
            if isinstance(k, list) and k and k[0] == "union":
                flat.extend(k[1])
            else:
                flat.append(k)
        uniq = []
        for k in flat:
            if k not in uniq:
                uniq.append(k)
        if len(uniq) == 1:
            return uniq[0]
        if not uniq:
            return "any"
        return ["union", sorted(uniq, key=lambda k: json.dumps(k, sort_keys=True))]

    def class_kind(self, cname, declared, stack=()):
        info = self.classes[cname]
        if any("Enum" in b for b in info["bases"]):
            return ["enum", "int" if any(b == "int" for b in info["bases"]) else "str"]
        fnames = [f[0] for f in info["fields"]]
        if fnames == ["_data"] or ("_data" in fnames and info["load"] is None):
            ann = [f[1] for f in info["fields"] if f[0] == "_data"][0]
            k = self.ann_kind(ann, declared, stack)
            return k if isinstance(k, list) and k[0] == "map" else ["map", "any"]
        return ["obj", self.class_fields(cname, declared, stack)]

    def class_fields(self, cname, declared, stack=()):
        info = self.classes[cname]
        load = info["load"]
        py2json = {}
        if load:
            for j, p in load.items():
                py2json.setdefault(p, []).append(j)
        out = {}
        for py, ann, has_default in info["fields"]:
            keys = py2json.get(py, [py] if not load else [f"<unmapped:{py}>"])
            for j in keys:
                out[j] = [not has_default, self.ann_kind(ann, declared, stack)]
        if load:
            pys = {f[0] for f in info["fields"]}
            for j, p in load.items():
                if p not in pys:
                    out[j] = [False, ["unknown-name", f"<Meta maps to missing field {p}>"]]
        return out


def annotation_allows_none(node):
    if node is None:
        return False
    if isinstance(node, ast.Constant):
        if node.value is None:
            return True
        if isinstance(node.value, str):
            try:
                return annotation_allows_none(ast.parse(node.value, mode="eval").body)
            except SyntaxError:
                return False
        return False
    if isinstance(node, ast.Name):
        return node.id == "None"
    if isinstance(node, ast.BinOp) and isinstance(node.op, ast.BitOr):
        return annotation_allows_none(node.left) or annotation_allows_none(node.right)
    if isinstance(node, ast.Subscript):
        base = ast.unparse(node.value).split(".")[-1]
        sl = node.slice
        args = list(sl.elts) if isinstance(sl, ast.Tuple) else [sl]
        if base == "Optional":
            return True
        if base == "Union":
            return any(annotation_allows_none(a) for a in args)
        if base == "Annotated":
            return annotation_allows_none(args[0])
    return False


def code_field_annotations(pkg_dir, class_name):
    """{wire key: {"annotation": text, "nullable": bool, "has_default": bool}} of one emitted model class"""
    idx = ModelIndex(os.path.join(pkg_dir, "models"))
    info = idx.classes.get(class_name)
    if info is None:
        return None
    load = info["load"] or {}
    py2json = {p: j for j, p in load.items()}
    return {py2json.get(py, py): {"annotation": ast.unparse(ann), "nullable": annotation_allows_none(ann), "has_default": d} for py, ann, d in info["fields"]}


def code_manifest(pkg_dir, doc):
    raw = (doc.get("components") or {}).get("schemas") or {}
    idx = ModelIndex(os.path.join(pkg_dir, "models"))
    declared = {sanitize_class(n): n for n in raw}
    out = {}
    for name in raw:
        cname = sanitize_class(name)
        others = {k: v for k, v in declared.items() if k != cname}
        if cname in idx.classes:
            k = idx.class_kind(cname, declared, (cname,))
            entry = {"count": 1 + idx.dups.count(cname)}
            if k[0] == "obj":
                entry["kind"] = "object"
                entry["fields"] = k[1]
            else:
                entry["kind"] = k
            out[name] = entry
        elif cname in idx.aliases:
            out[name] = {"count": 1 + idx.dups.count(cname), "kind": idx.ann_kind(idx.aliases[cname], others, (cname,))}
        else:
            out[name] = {"count": 0}
    return out, idx


def client_manifest(pkg_dir):
    """{"<ClientClass>": {"<method>": "<args> -> <ret>"}, "APIClient": {"props": [...]}} read through ast"""
    out = {}
    errors = []
    ed = os.path.join(pkg_dir, "endpoints")
    files = []
    if os.path.isdir(ed):
        files = [os.path.join(ed, f) for f in sorted(os.listdir(ed)) if f.endswith(".py") and f != "__init__.py"]
    for p in files:
        try:
            tree = ast.parse(open(p, encoding="utf-8").read())
        except SyntaxError as e:
            errors.append((os.path.basename(p), e.msg))
            continue
        for node in tree.body:
            if isinstance(node, ast.ClassDef) and not node.name.endswith("Protocol"):
                meths = {}
                for st in node.body:
                    if isinstance(st, (ast.AsyncFunctionDef, ast.FunctionDef)) and not st.name.startswith("__"):
                        if any("overload" in ast.unparse(d) for d in st.decorator_list):
                            meths.setdefault(st.name + "@overloads", []).append(
                                f"({ast.unparse(st.args)}) -> {ast.unparse(st.returns) if st.returns else None}")
                            continue
                        kind = "async " if isinstance(st, ast.AsyncFunctionDef) else ""
                        meths[st.name] = f"{kind}({ast.unparse(st.args)}) -> {ast.unparse(st.returns) if st.returns else None}"
                for k in list(meths):
                    if isinstance(meths[k], list):
                        meths[k] = sorted(meths[k])
                out[node.name] = meths
    cp = os.path.join(pkg_dir, "client.py")
    if os.path.exists(cp):
        try:
            tree = ast.parse(open(cp, encoding="utf-8").read())
            for node in tree.body:
                if isinstance(node, ast.ClassDef) and node.name == "APIClient":
                    props = sorted(st.name for st in node.body if isinstance(st, ast.FunctionDef)
                                   and any("property" in ast.unparse(d) for d in st.decorator_list))
                    out["APIClient"] = {"props": props}
        except SyntaxError as e:
            errors.append(("client.py", e.msg))
    return out, errors
