"""Shared package-level oracles for C01 (compiles and imports) and C12 (self-contained)."""
from __future__ import annotations

import ast
import os
import re
import sys

from . import sandbox
from .kernel import HarnessError


def pkg_dir(root, package):
    return os.path.join(root, *package.split("."))


def location_class(rel, out_pkg, core_pkg):
    """classify a path relative to the project root into the part of the emitted package it belongs to"""
    if rel is None:
        return "unknown"
    rel = rel.replace(os.sep, "/")
    out = out_pkg.replace(".", "/") + "/"
    core = core_pkg.replace(".", "/") + "/"
    if rel.startswith(core):
        return "core"
    if rel.startswith(out):
        sub = rel[len(out):]
        if sub.startswith("models/"):
            return "models-init" if sub.endswith("__init__.py") else "models"
        if sub.startswith("endpoints/"):
            return "endpoints-init" if sub.endswith("__init__.py") else "endpoints"
        if sub.startswith("mocks/"):
            return "mocks"
        if sub == "client.py":
            return "client"
        if sub == "__init__.py":
            return "pkg-init"
        return "pkg-other"
    if rel.endswith("__init__.py"):
        return "ancestor-init"
    return "outside"


def norm_syntax(msg):
    msg = re.sub(r"'[^']*'", "'*'", str(msg))
    msg = re.sub(r"\d+", "N", msg)
    return msg.split("(")[0].strip()[:120]


_COMPILED_OK = set()  # sha1 of sources that compiled (per worker): the copied runtime files are identical in every project


def compile_all(root, dirs):
    """compile() every emitted .py; returns [(relpath, normalised message, raw)]"""
    import hashlib

    bad = []
    seen = set()
    for d in dirs:
        for p in sandbox.py_files(d):
            if p in seen:
                continue
            seen.add(p)
            try:
                src = open(p, encoding="utf-8").read()
                h = hashlib.sha1(src.encode("utf-8", "surrogatepass")).digest()
                if h in _COMPILED_OK:
                    continue
                compile(src, p, "exec", dont_inherit=True)
                _COMPILED_OK.add(h)
            except SyntaxError as e:
                bad.append((os.path.relpath(p, root), norm_syntax(e.msg), f"{e.msg} (line {e.lineno})"))
            except (UnicodeDecodeError, ValueError) as e:
                bad.append((os.path.relpath(p, root), type(e).__name__, str(e)[:200]))
    return bad


def import_verdict(root, out_pkg, core_pkg):
    tops = sorted({out_pkg.split(".")[0], core_pkg.split(".")[0]})
    pkgs = [out_pkg]
    if not (core_pkg + ".").startswith(out_pkg + "."):
        pkgs.append(core_pkg)
    res = sandbox.zygote_job({"roots": [root], "allow": tops, "driver": "import_all", "args": {"packages": pkgs, "root": root}})
    if "_crash" in res:
        raise HarnessError("import_all driver crashed: " + res["_crash"] + res.get("_tb", ""))
    if res.get("generator_importable"):
        raise HarnessError("the runtime-only interpreter can import pyopenapi_gen: blocker broken")
    return res


def package_findings(pid, root, out_pkg, core_pkg):
    """[(sig, message)] for one generated project: compile every file, import every module, resolve __all__"""
    out = []
    dirs = [pkg_dir(root, out_pkg)]
    if not (core_pkg + ".").startswith(out_pkg + "."):
        dirs.append(pkg_dir(root, core_pkg))
    bad = compile_all(root, dirs)
    seen = set()
    for rel, msg, raw in bad:
        sig = f"{pid}|compile|{location_class(rel, out_pkg, core_pkg)}|{msg}"
        if sig not in seen:
            seen.add(sig)
            out.append((sig, f"{rel}: {raw}"))
    res = import_verdict(root, out_pkg, core_pkg)
    for f in res["failures"]:
        if f["kind"] == "import":
            if f["error"].startswith("SyntaxError") or f["error"].startswith("IndentationError"):
                continue  # already reported by the compile pass, with its own location
            loc = location_class(f.get("origin"), out_pkg, core_pkg)
            sig = f"{pid}|import|{loc}|{f['error']}"
        else:
            loc = location_class(os.path.join(*f["module"].split(".")) + ".py", out_pkg, core_pkg)
            sig = f"{pid}|all|{loc}|{f['error']}"
        if sig not in seen:
            seen.add(sig)
            out.append((sig, f"{f['module']}: {f['raw']} (origin {f.get('origin')})"))
    return out, len(res["modules"])


# ----------------------------------------------------------------------------------------------
# C12: import scan
# ----------------------------------------------------------------------------------------------
STDLIB = set(sys.stdlib_module_names)
RUNTIME_DEPS = {"httpx", "cattrs", "attrs", "attr", "cattr"}   # what the property names; dependencies OF those (typing_extensions ...) are not the client's to import


def scan_imports(root, out_pkg, core_pkg):
    """every Import/ImportFrom of every emitted file (top-level, nested, under TYPE_CHECKING) must target the stdlib, httpx,
    cattrs/attrs, the package itself or its designated core. returns [(relpath, module, why)]"""
    bad = []
    dirs = [pkg_dir(root, out_pkg)]
    if not (core_pkg + ".").startswith(out_pkg + "."):
        dirs.append(pkg_dir(root, core_pkg))
    nfiles = nimports = 0
    for d in dirs:
        for p in sandbox.py_files(d):
            rel = os.path.relpath(p, root)
            modname = rel[:-3].replace(os.sep, ".")
            is_pkg = modname.endswith(".__init__")
            cur_pkg = modname[: -len(".__init__")] if is_pkg else modname.rsplit(".", 1)[0]
            try:
                tree = ast.parse(open(p, encoding="utf-8").read())
            except SyntaxError:
                continue
            nfiles += 1
            for node in ast.walk(tree):
                targets = []
                if isinstance(node, ast.Import):
                    targets = [a.name for a in node.names]
                elif isinstance(node, ast.ImportFrom):
                    if node.level:
                        parts = cur_pkg.split(".")
                        if node.level > len(parts):
                            # Python refuses this at import time: "attempted relative import beyond top-level package"
                            bad.append((rel, "." * node.level + (node.module or ""), "relative import climbs out of the top-level package"))
                            continue
                        base = parts[: len(parts) - (node.level - 1)]
                        targets = [".".join(base + ([node.module] if node.module else []))]
                    else:
                        targets = [node.module or ""]
                for t in targets:
                    nimports += 1
                    top = t.split(".")[0]
                    if top in STDLIB or top in RUNTIME_DEPS:
                        continue
                    if (t + ".").startswith(out_pkg + ".") or (t + ".").startswith(core_pkg + "."):
                        # a module of the package / core: it must have been emitted (a verbatim-copied runtime file may refer to a
                        # sibling that only exists inside the generator)
                        base = os.path.join(root, *t.split("."))
                        if not (os.path.exists(base + ".py") or os.path.exists(os.path.join(base, "__init__.py"))):
                            bad.append((rel, t, "imports a module of the package/core that was not emitted"))
                        continue
                    if (out_pkg + ".").startswith(t + ".") or (core_pkg + ".").startswith(t + "."):
                        continue  # an ancestor package of the client / core
                    why = "imports the generator" if top == "pyopenapi_gen" else "imports a module outside stdlib/httpx/cattrs/package/core"
                    bad.append((rel, t, why))
    return bad, nfiles, nimports
