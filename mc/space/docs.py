"""Σ-docs-rep: a fixed list of small representative documents, one per generator code path.
Used wherever a dimension other than the document is the one being enumerated (layouts, renderings, histories, faults)."""
from __future__ import annotations

import copy
import json
import os


def R(n):
    return {"$ref": "#/components/schemas/" + n}


def jresp(schema, desc="ok"):
    return {"description": desc, "content": {"application/json": {"schema": schema}}}


def doc(title, schemas, paths):
    return {"openapi": "3.0.3", "info": {"title": title, "version": "1.0.0"}, "paths": paths, "components": {"schemas": schemas}}


PET = {"type": "object", "required": ["id", "name"], "properties": {
    "id": {"type": "integer", "format": "int64"}, "name": {"type": "string"}, "tag": {"type": "string"},
    "bornAt": {"type": "string", "format": "date-time"}, "status": {"type": "string", "enum": ["available", "sold"]}}}


def petstore():
    return doc("Petstore", {"Pet": PET, "Error": {"type": "object", "required": ["code"], "properties": {
        "code": {"type": "integer"}, "message": {"type": "string"}}}}, {
        "/pets": {
            "get": {"operationId": "listPets", "tags": ["pets"], "parameters": [
                {"name": "limit", "in": "query", "schema": {"type": "integer"}},
                {"name": "X-Trace", "in": "header", "schema": {"type": "string"}}],
                "responses": {"200": jresp({"type": "array", "items": R("Pet")}), "default": jresp(R("Error"), "err")}},
            "post": {"operationId": "createPet", "tags": ["pets"],
                     "requestBody": {"required": True, "content": {"application/json": {"schema": R("Pet")}}},
                     "responses": {"201": jresp(R("Pet")), "400": jresp(R("Error"), "bad"), "422": {"description": "unprocessable"}}}},
        "/pets/{petId}": {
            "parameters": [{"name": "petId", "in": "path", "required": True, "schema": {"type": "integer"}}],
            "get": {"operationId": "getPet", "tags": ["pets"], "responses": {"200": jresp(R("Pet")), "404": {"description": "nf"}}},
            "delete": {"operationId": "deletePet", "tags": ["pets", "admin"], "responses": {"204": {"description": "gone"}, "500": {"description": "boom"}}}},
    })


def enums_and_unions():
    return doc("Unions", {
        "Color": {"type": "string", "enum": ["red", "green", "dark-blue"]},
        "Level": {"type": "integer", "enum": [1, 2, 3]},
        "Cat": {"type": "object", "required": ["kind", "lives"], "properties": {"kind": {"type": "string"}, "lives": {"type": "integer"}}},
        "Dog": {"type": "object", "required": ["kind", "bark"], "properties": {"kind": {"type": "string"}, "bark": {"type": "boolean"}}},
        "Animal": {"oneOf": [R("Cat"), R("Dog")], "discriminator": {"propertyName": "kind", "mapping": {
            "cat": "#/components/schemas/Cat", "dog": "#/components/schemas/Dog"}}},
        "Loose": {"anyOf": [R("Cat"), {"type": "string"}]},
        "Holder": {"type": "object", "properties": {"color": R("Color"), "level": R("Level"), "pet": R("Animal"),
                                                     "loose": R("Loose"), "inlineEnum": {"type": "string", "enum": ["a", "b"]}}},
    }, {
        "/animals": {"get": {"operationId": "listAnimals", "tags": ["zoo"], "parameters": [
            {"name": "color", "in": "query", "schema": R("Color")}],
            "responses": {"200": jresp({"type": "array", "items": R("Animal")})}}},
        "/holder": {"put": {"operationId": "putHolder", "tags": ["zoo"],
                            "requestBody": {"content": {"application/json": {"schema": R("Holder")}}},
                            "responses": {"200": jresp(R("Holder"))}}},
    })


def wrappers_and_maps():
    return doc("Wrappers", {
        "Item": {"type": "object", "properties": {"n": {"type": "integer"}}},
        "TypedMap": {"type": "object", "additionalProperties": R("Item")},
        "StrMap": {"type": "object", "additionalProperties": {"type": "string"}},
        "FreeForm": {"type": "object", "additionalProperties": True},
        "Page": {"type": "object", "required": ["data"], "properties": {
            "data": {"type": "array", "items": R("Item")}, "meta": {"type": "object", "additionalProperties": {"type": "integer"}},
            "extra": R("TypedMap")}},
        "Names": {"type": "array", "items": {"type": "string"}},
    }, {
        "/page": {"get": {"operationId": "getPage", "responses": {"200": jresp(R("Page"))}}},
        "/names": {"get": {"operationId": "getNames", "responses": {"200": jresp(R("Names"))}}},
        "/free": {"post": {"operationId": "postFree", "requestBody": {"content": {"application/json": {"schema": R("FreeForm")}}},
                           "responses": {"200": jresp(R("StrMap"))}}},
    })


def streaming_and_content():
    return doc("Streams", {"Evt": {"type": "object", "properties": {"msg": {"type": "string"}}}}, {
        "/events": {"get": {"operationId": "streamEvents", "tags": ["stream"], "responses": {
            "200": {"description": "sse", "content": {"text/event-stream": {"schema": R("Evt")}}}}}},
        "/download": {"get": {"operationId": "download", "tags": ["stream"], "responses": {
            "200": {"description": "bin", "content": {"application/octet-stream": {"schema": {"type": "string", "format": "binary"}}}}}}},
        "/upload": {"post": {"operationId": "upload", "tags": ["files"], "requestBody": {"required": True, "content": {
            "multipart/form-data": {"schema": {"type": "object", "properties": {"file": {"type": "string", "format": "binary"}}}}}},
            "responses": {"201": jresp(R("Evt"))}}},
        "/form": {"post": {"operationId": "sendForm", "tags": ["files"], "requestBody": {"content": {
            "application/x-www-form-urlencoded": {"schema": {"type": "object", "properties": {"a": {"type": "string"}}}}}},
            "responses": {"204": {"description": "ok"}}}},
        "/multi": {"post": {"operationId": "multiContent", "tags": ["files"], "requestBody": {"required": True, "content": {
            "application/json": {"schema": R("Evt")},
            "multipart/form-data": {"schema": {"type": "object", "properties": {"file": {"type": "string", "format": "binary"}}}}}},
            "responses": {"200": jresp(R("Evt"))}}},
    })


def cyclic_models():
    return doc("Cycles", {
        "Node": {"type": "object", "required": ["id"], "properties": {"id": {"type": "integer"}, "children": {"type": "array", "items": R("Node")}}},
        "Author": {"type": "object", "properties": {"name": {"type": "string"}, "books": {"type": "array", "items": R("Book")}}},
        "Book": {"type": "object", "properties": {"title": {"type": "string"}, "author": R("Author")}},
        "Base": {"type": "object", "required": ["id"], "properties": {"id": {"type": "string", "format": "uuid"}}},
        "Derived": {"allOf": [R("Base"), {"type": "object", "properties": {"extra": {"type": "string", "format": "date"}}}]},
    }, {
        "/nodes/{id}": {"get": {"operationId": "getNode", "tags": ["graph"], "parameters": [
            {"name": "id", "in": "path", "required": True, "schema": {"type": "integer"}}],
            "responses": {"200": jresp(R("Node"))}}},
        "/derived": {"get": {"operationId": "getDerived", "tags": ["graph"], "responses": {"200": jresp(R("Derived"))}}},
    })


def naming_collisions():
    return doc("Names", {
        "user-profile": {"type": "object", "properties": {"userName": {"type": "string"}, "user_name": {"type": "string"},
                                                           "class": {"type": "string"}, "2fa": {"type": "boolean"}}},
        "UserProfile": {"type": "object", "properties": {"id": {"type": "integer"}}},
        "List": {"type": "object", "properties": {"items": {"type": "array", "items": {"type": "string"}}}},
    }, {
        "/users/{user-id}": {"get": {"operationId": "get_user_users__user_id__get", "tags": ["User Admin"], "parameters": [
            {"name": "user-id", "in": "path", "required": True, "schema": {"type": "string"}},
            {"name": "type", "in": "query", "schema": {"type": "string"}}],
            "responses": {"200": jresp(R("UserProfile"))}}},
        "/users": {"get": {"operationId": "get_user", "tags": ["user_admin"], "responses": {"200": jresp({"type": "array", "items": R("user-profile")})}},
                   "post": {"tags": ["User Admin"], "requestBody": {"content": {"application/json": {"schema": R("List")}}},
                            "responses": {"201": {"description": "c"}}}},
    })


def no_operations():
    return doc("OnlyModels", {"Thing": {"type": "object", "properties": {"a": {"type": "string"}}}}, {})


def no_schemas():
    d = doc("OnlyOps", {}, {"/ping": {"get": {"operationId": "ping", "responses": {"200": {"description": "pong", "content": {
        "text/plain": {"schema": {"type": "string"}}}}}}}})
    del d["components"]
    return d


def redirects_and_codes():
    """declared 1xx/3xx responses, unusual 4xx/5xx codes, a shared component response and component parameters"""
    return {"openapi": "3.0.3", "info": {"title": "Codes", "version": "1"}, "paths": {
        "/docs/{id}": {"get": {"operationId": "getDoc", "tags": ["docs"], "parameters": [{"$ref": "#/components/parameters/DocId"}, {"$ref": "#/components/parameters/IfNone"}],
                               "responses": {"200": jresp(R("Doc")), "304": {"description": "not modified"}, "302": {"description": "moved"},
                                             "404": {"$ref": "#/components/responses/Problem"}, "499": {"$ref": "#/components/responses/Problem"},
                                             "520": {"description": "origin error"}}},
                       "delete": {"operationId": "deleteDoc", "tags": ["docs"], "parameters": [{"$ref": "#/components/parameters/DocId"}],
                                  "responses": {"204": {"description": "gone"}, "409": {"$ref": "#/components/responses/Problem"}}}}},
        "components": {"schemas": {"Doc": {"type": "object", "properties": {"id": {"type": "integer"}, "meta": {"type": "object", "additionalProperties": True}}},
                                   "ProblemBody": {"type": "object", "properties": {"detail": {"type": "string"}}}},
                       "parameters": {"DocId": {"name": "id", "in": "path", "required": True, "schema": {"type": "integer"}},
                                      "IfNone": {"name": "If-None-Match", "in": "header", "schema": {"type": "string"}}},
                       "responses": {"Problem": {"description": "problem", "content": {"application/json": {"schema": R("ProblemBody")}}}}}}


def promoted_name_collisions():
    """component names that coincide with the names the generator invents for promoted inline schemas"""
    return doc("Promoted", {
        "OrderLines": {"type": "object", "properties": {"note": {"type": "string"}}},
        "Order": {"type": "object", "properties": {"lines": {"type": "array", "items": {"type": "object", "properties": {"sku": {"type": "string"}, "qty": {"type": "integer"}}}},
                                                   "matrix": {"type": "array", "items": {"type": "array", "items": {"type": "integer"}}},
                                                   "status": {"type": "string", "enum": ["open", "closed"]}}},
        "OrderStatus": {"type": "string", "enum": ["x", "y"]},
        "OrderLinesItem": {"type": "object", "properties": {"other": {"type": "boolean"}}},
        "OrderMatrix": {"type": "object", "properties": {"m": {"type": "integer"}}},
    }, {"/orders": {"get": {"operationId": "listOrders", "responses": {"200": jresp({"type": "array", "items": R("Order")})}}}})


def shared_component_parameters():
    """component parameters whose schemas need models of their own (inline enums, arrays of inline enums), referenced from several operations"""
    params = {"Sort": {"name": "sort", "in": "query", "schema": {"type": "array", "items": {"type": "string", "enum": ["name", "-name", "age"]}}},
              "View": {"name": "view", "in": "query", "schema": {"type": "string", "enum": ["full", "compact"]}},
              "Limit": {"name": "limit", "in": "query", "schema": {"type": "integer"}}}
    refs = [{"$ref": "#/components/parameters/" + n} for n in params]
    d = doc("Shared", {"Pet": {"type": "object", "properties": {"name": {"type": "string"}}}, "Owner": {"type": "object", "properties": {"age": {"type": "integer"}}}}, {
        "/pets": {"get": {"operationId": "listPets", "tags": ["pets"], "parameters": list(refs), "responses": {"200": jresp({"type": "array", "items": R("Pet")})}}},
        "/owners": {"get": {"operationId": "listOwners", "tags": ["owners"], "parameters": list(refs), "responses": {"200": jresp({"type": "array", "items": R("Owner")})}}},
        "/owners/{id}/pets": {"parameters": [{"name": "id", "in": "path", "required": True, "schema": {"type": "integer"}}],
                              "get": {"operationId": "listOwnerPets", "tags": ["owners"], "parameters": [refs[0]], "responses": {"200": jresp({"type": "array", "items": R("Pet")})}}}})
    d["components"]["parameters"] = params
    return d


def several_success_codes():
    """operations declaring several of 200/201/202/204 with different contents, listed out of priority order"""
    return doc("Jobs", {"Job": {"type": "object", "required": ["id"], "properties": {"id": {"type": "integer"}, "state": {"type": "string"}}},
                        "JobTicket": {"type": "object", "required": ["ticket"], "properties": {"ticket": {"type": "string"}}}}, {
        "/jobs": {"post": {"operationId": "createJob", "responses": {"201": jresp(R("Job")), "200": jresp(R("JobTicket"))}}},
        "/jobs/{jobId}": {"parameters": [{"name": "jobId", "in": "path", "required": True, "schema": {"type": "integer"}}],
                          "put": {"operationId": "replaceJob", "responses": {"202": jresp(R("JobTicket")), "200": jresp(R("Job"))}},
                          "delete": {"operationId": "cancelJob", "responses": {"204": {"description": "cancelled"}, "200": jresp(R("Job"))}}}})


def tag_spellings():
    """one tag spelled in ways that split into words differently, on operations in different path items (plainer spelling first)"""
    ok = {"204": {"description": "done"}}
    return doc("Hooks", {"Hook": {"type": "object", "properties": {"url": {"type": "string"}}}}, {
        "/hooks": {"get": {"operationId": "listHooks", "tags": ["webhooks"], "responses": {"200": jresp({"type": "array", "items": R("Hook")})}}},
        "/hooks/{id}": {"parameters": [{"name": "id", "in": "path", "required": True, "schema": {"type": "integer"}}],
                        "delete": {"operationId": "deleteHook", "tags": ["WebHooks"], "responses": ok}},
        "/hooks/{id}/ping": {"parameters": [{"name": "id", "in": "path", "required": True, "schema": {"type": "integer"}}],
                             "post": {"operationId": "pingHook", "tags": ["web-hooks"], "responses": ok}},
        "/status": {"get": {"operationId": "getStatus", "responses": ok}},
        "/version": {"get": {"operationId": "getVersion", "tags": ["Default"], "responses": ok}}})


def synthetic_name_collisions():
    """component names that coincide with the names the generator invents for inline request / response bodies of operations"""
    comp = {n: {"type": "object", "properties": {"marker" + str(i): {"type": "string"}}} for i, n in enumerate(
        ["ListPets200Response", "ListPetsResponse", "ListPetsResponse200", "CreatePetRequestBody", "CreatePetRequest", "CreatePetBody", "CreatePet201Response"])}
    comp["Uses"] = {"type": "object", "properties": {"u" + str(i): R(n) for i, n in enumerate(list(comp))}}
    inline_resp = {"type": "object", "properties": {"items": {"type": "array", "items": {"type": "string"}}, "total": {"type": "integer"}}}
    inline_body = {"type": "object", "required": ["name"], "properties": {"name": {"type": "string"}, "age": {"type": "integer"}}}
    return doc("Synthetic", comp, {
        "/pets": {"get": {"operationId": "listPets", "responses": {"200": jresp(inline_resp)}},
                  "post": {"operationId": "createPet", "requestBody": {"required": True, "content": {"application/json": {"schema": inline_body}}},
                           "responses": {"201": jresp({"type": "object", "properties": {"id": {"type": "integer"}}})}}},
        "/uses": {"get": {"operationId": "getUses", "responses": {"200": jresp(R("Uses"))}}}})


def numeric_mapping_keys():
    """discriminator mapping whose keys are numbers written as strings (a YAML author may leave them unquoted)"""
    d = doc("Shapes", {
        "Circle": {"type": "object", "required": ["kind", "r"], "properties": {"kind": {"type": "string"}, "r": {"type": "number"}}},
        "Square": {"type": "object", "required": ["kind", "s"], "properties": {"kind": {"type": "string"}, "s": {"type": "number"}}},
        "Shape": {"oneOf": [R("Circle"), R("Square")], "discriminator": {"propertyName": "kind", "mapping": {"1": "#/components/schemas/Circle", "2": "#/components/schemas/Square"}}},
    }, {"/shapes": {"get": {"operationId": "listShapes", "responses": {"200": jresp({"type": "array", "items": R("Shape")})}}}})
    return d


def many_inline_lists():
    """many schemas that are arrays of inline objects, declared before schemas that refer to one another"""
    sch = {}
    for i in range(160):
        sch[f"L{i:03d}"] = {"type": "array", "items": {"type": "object", "properties": {"v": {"type": "integer"}}}}
    sch["Customer"] = {"type": "object", "properties": {"name": {"type": "string"}, "address": R("Address"), "tier": {"type": "string", "enum": ["a", "b"]}}}
    sch["Address"] = {"type": "object", "properties": {"street": {"type": "string"}, "owner": R("Customer")}}
    return doc("Many", sch, {"/c": {"get": {"operationId": "getCustomer", "responses": {"200": jresp(R("Customer"))}}}})


def odd_but_legal():
    """an undeclared path variable on an operation with a required body; enums that repeat a value; one response offering a stream and JSON;
    a deprecated operation"""
    return doc("Odd", {
        "Note": {"type": "object", "required": ["text"], "properties": {"text": {"type": "string"}, "level": {"type": "string", "enum": ["low", "high", "low", "mid"]}}},
        "Colour": {"type": "string", "enum": ["red", "green", "red", "blue", "green"]},
        "Event": {"type": "object", "properties": {"kind": {"type": "string"}, "colour": R("Colour")}},
    }, {
        "/books/{bookId}/notes": {"post": {"operationId": "addNote", "requestBody": {"required": True, "content": {"application/json": {"schema": R("Note")}}},
                                           "responses": {"201": jresp(R("Note"))}}},
        "/events": {"get": {"operationId": "watchEvents", "deprecated": True, "responses": {"200": {"description": "ok", "content": {
            "text/event-stream": {"schema": R("Event")}, "application/json": {"schema": R("Event")}}}}}},
    })


REP = {
    "petstore": petstore,
    "unions": enums_and_unions,
    "wrappers": wrappers_and_maps,
    "streams": streaming_and_content,
    "cycles": cyclic_models,
    "names": naming_collisions,
    "codes": redirects_and_codes,
    "promoted": promoted_name_collisions,
    "shared_params": shared_component_parameters,
    "multi2xx": several_success_codes,
    "tag_spellings": tag_spellings,
    "synthetic": synthetic_name_collisions,
    "numeric_mapping": numeric_mapping_keys,
    "many_lists": many_inline_lists,
    "odd": odd_but_legal,
    "no_ops": no_operations,
    "no_schemas": no_schemas,
}


def repo_inputs(repo):
    out = {}
    d = os.path.join(repo, "input")
    for fn in ("minimal_swagger.json", "minimal_syntax_test.json", "test_name_collision_spec.json"):
        p = os.path.join(d, fn)
        if os.path.exists(p):
            try:
                out["input/" + fn] = json.load(open(p))
            except Exception:
                pass
    return out


def get(name, repo="/repo"):
    if name in REP:
        return copy.deepcopy(REP[name]())
    return repo_inputs(repo)[name]


def names(with_inputs=True, repo="/repo"):
    n = list(REP)
    if with_inputs:
        n += list(repo_inputs(repo))
    return n
