"""Σ-field: property shapes (kind x required x default x name style), model documents built from them, and the finite
instance menus used by the round-trip checks."""
from __future__ import annotations

import itertools

# the last three are spelled like component schemas of the packed document (Tgt, PetU, StateEnum): an inline property is not a reference to them
STYLE_NAMES = ["name", "userName", "user_name", "user-name", "X-Req-Id", "id", "type", "class", "date", "field", "2fa", "_x", "tgt", "petU", "state_enum"]

# target of reference-valued properties: has a renamed (camelCase) property so that wire keys matter in nested positions.
# each container kind gets its OWN target schema, so that the converter meets it only through that container
TGT = {"type": "object", "required": ["id"], "properties": {"id": {"type": "integer"}, "displayName": {"type": "string"}}}
TARGETS = ["Tgt", "TgtArr", "TgtMap", "TgtMapArr", "TgtNull", "TgtUnion"]
REF_TGT = {"$ref": "#/components/schemas/Tgt"}


def _ref(n):
    return {"$ref": "#/components/schemas/" + n}

# kind -> (schema, default value or None, instances [typical, typical, edge])
KINDS = {
    "string": ({"type": "string"}, "dflt", ["a", "hello world", "é\"\\\n名"]),
    "date-time": ({"type": "string", "format": "date-time"}, None,
                  ["2020-01-02T03:04:05Z", "2021-12-31T23:59:59+02:00", "2020-01-02T03:04:05.123456+00:00"]),
    "date": ({"type": "string", "format": "date"}, None, ["2020-01-02", "1999-12-31", "2024-02-29"]),
    "time": ({"type": "string", "format": "time"}, None, ["03:04:05", "23:59:59", "09:30:00.123456"]),
    "uuid": ({"type": "string", "format": "uuid"}, None,
             ["123e4567-e89b-12d3-a456-426614174000", "00000000-0000-0000-0000-000000000000", "ffffffff-ffff-4fff-bfff-ffffffffffff"]),
    "byte": ({"type": "string", "format": "byte"}, None, ["aGVsbG8=", "+/+/++8=", ""]),
    "binary": ({"type": "string", "format": "binary"}, None, ["raw", "/9j/4AAQSkZJRg==", ""]),
    "email": ({"type": "string", "format": "email"}, None, ["a@b.c", "x@y.z", "é@b.c"]),
    "uri": ({"type": "string", "format": "uri"}, None, ["http://a/b", "https://x.y/z?q=1", "urn:x"]),
    "integer": ({"type": "integer"}, 7, [1, -5, 0]),
    "int64": ({"type": "integer", "format": "int64"}, None, [1, 1099511627776, -1]),
    "number": ({"type": "number"}, 1.5, [1.5, -2.25, 0.0]),
    "double": ({"type": "number", "format": "double"}, None, [1.5, 1e10, -0.5]),
    "boolean": ({"type": "boolean"}, True, [True, False, False]),
    "str-enum": ({"type": "string", "enum": ["a", "b-c", "D"]}, "a", ["a", "b-c", "D"]),
    "int-enum": ({"type": "integer", "enum": [1, 2, 3]}, None, [1, 2, 3]),
    "arr-string": ({"type": "array", "items": {"type": "string"}}, ["x"], [["a"], ["a", "b"], []]),
    "arr-integer": ({"type": "array", "items": {"type": "integer"}}, None, [[1], [1, 2], []]),
    "arr-datetime": ({"type": "array", "items": {"type": "string", "format": "date-time"}}, None,
                     [["2020-01-02T03:04:05Z"], ["2020-01-02T03:04:05Z", "2021-01-02T03:04:05Z"], []]),
    "arr-ref": ({"type": "array", "items": _ref("TgtArr")}, None, [[{"id": 1}], [{"id": 1, "displayName": "l"}, {"id": 2}], []]),
    "map-string": ({"type": "object", "additionalProperties": {"type": "string"}}, {}, [{"k": "v"}, {"a": "b", "c": "d"}, {}]),
    "map-ref": ({"type": "object", "additionalProperties": _ref("TgtMap")}, None,
                [{"k": {"id": 1, "displayName": "n"}}, {"a": {"id": 1}, "b": {"id": 2, "displayName": "l"}}, {}]),
    "map-arr-ref": ({"type": "object", "additionalProperties": {"type": "array", "items": _ref("TgtMapArr")}}, None,
                    [{"k": [{"id": 1, "displayName": "n"}]}, {"a": [], "b": [{"id": 2}, {"id": 3, "displayName": "l"}]}, {}]),
    "ref": (REF_TGT, None, [{"id": 1}, {"id": 2, "displayName": "l"}, {"id": 0}]),
    "nullable-string": ({"type": "string", "nullable": True}, None, ["a", None, ""]),
    "nullable-ref": ({"allOf": [_ref("TgtNull")], "nullable": True}, None, [{"id": 1}, None, {"id": 2, "displayName": "x"}]),
    "type-list-null": ({"type": ["string", "null"]}, None, ["a", None, "b"]),
    "free-object": ({"type": "object"}, {}, [{"a": 1}, {"b": {"c": [1, 2]}}, {}]),
    "inline-object": ({"type": "object", "properties": {"x": {"type": "integer"}, "y": {"type": "string"}}}, {"x": 1},
                      [{"x": 1}, {"x": 2, "y": "s"}, {}]),
    "oneof-ref-string": ({"oneOf": [_ref("TgtUnion"), {"type": "string"}]}, {"id": 7}, [{"id": 1}, "s", {"id": 2, "displayName": "l"}]),
    "any": ({}, None, [1, "s", {"a": [1]}]),
    # reference to a NAMED enum whose members are spelled in every style and which declares a default itself
    "ref-enum": (_ref("StateEnum"), None, ["inProgress", "done-now", "on hold"]),
    "ref-enum-upper": (_ref("StateEnumUpper"), None, ["OPEN", "closedNow", "re_opened"]),
    "nullable-enum": ({"type": "string", "enum": ["x", "y"], "nullable": True}, None, ["x", None, "y"]),
    "nullable-inline-object": ({"type": "object", "nullable": True, "properties": {"q": {"type": "integer"}}}, None, [{"q": 1}, None, {}]),
    "nullable-array": ({"type": "array", "nullable": True, "items": {"type": "integer"}}, None, [[1], None, []]),
    # OpenAPI 3.1 spelling of nullability (type list) on inline enums / objects / arrays
    "enum-type-list-null": ({"type": ["string", "null"], "enum": ["x", "y", None]}, None, ["x", None, "y"]),
    "object-type-list-null": ({"type": ["object", "null"], "properties": {"q": {"type": "integer"}}}, None, [{"q": 1}, None, {}]),
    "array-type-list-null": ({"type": ["array", "null"], "items": {"type": "string"}}, None, [["a"], None, []]),
    "integer-type-list-null": ({"type": ["integer", "null"]}, None, [3, None, 0]),
    # the same with "null" listed FIRST
    "null-first-integer": ({"type": ["null", "integer"]}, None, [3, None, 0]),
    "null-first-string": ({"type": ["null", "string"]}, None, ["a", None, ""]),
    "null-first-array": ({"type": ["null", "array"], "items": {"type": "string"}}, None, [["a"], None, []]),
    # enum values of which two collide after derivation while a third one spells the suffixed name itself
    "enum-colliding": ({"type": "string", "enum": ["v1", "V1", "v1-1", "a", "A", "a_1"]}, None, ["v1", "V1", "v1-1"]),
    # a property whose schema is left empty (YAML `note:` / JSON null): no constraint, but the property exists
    "null-schema": (None, None, [1, "s", {"a": [1]}]),
    # "any value" spelled as an empty schema under additionalProperties (Swashbuckle / NSwag style)
    "map-empty-schema": ({"type": "object", "additionalProperties": {}}, None, [{"a": 1}, {"b": {"c": [1]}, "d": "s"}, {}]),
    # maps whose VALUES may be null
    "map-nullable-string": ({"type": "object", "additionalProperties": {"type": "string", "nullable": True}}, None, [{"k": "v"}, {"a": None, "b": "x"}, {}]),
    "map-nullable-integer": ({"type": "object", "additionalProperties": {"type": "integer", "nullable": True}}, None, [{"k": 1}, {"a": None, "b": 2}, {}]),
    # reference to ONE named discriminated union whose mapping has two values for one schema (dog and puppy are both DiscDog); the union is a
    # component of its own, shared by every model of the document, because the generator specialises the variants per union
    "ref-disc-union": (_ref("PetU"), None, [{"petType": "dog", "bark": True}, {"petType": "puppy", "bark": False}, {"petType": "cat", "lives": 9}]),
    "arr-ref-disc-union": ({"type": "array", "items": _ref("PetU")}, None,
                           [[{"petType": "puppy", "bark": False}], [{"petType": "cat", "lives": 9}, {"petType": "dog", "bark": True}], []]),
    # reference to ONE named union WITHOUT discriminator whose variants are told apart by their required keys (the stricter one listed first);
    # the array instances hold both variants in both orders: what an element decodes to must not depend on its neighbours
    "ref-plain-union": (_ref("EntryU"), None, [{"entryId": 1}, {"entryId": 2, "bodyText": "b", "wordCount": 3}]),
    "arr-ref-plain-union": ({"type": "array", "items": _ref("EntryU")}, None,
                            [[{"entryId": 1}, {"entryId": 2, "bodyText": "b", "wordCount": 3}, {"entryId": 4}],
                             [{"entryId": 2, "bodyText": "b", "wordCount": 3}, {"entryId": 1}, {"entryId": 5, "bodyText": "c", "wordCount": 0}], []]),
}
DISC_TARGETS = {
    "EntryDetailed": {"type": "object", "required": ["entryId", "bodyText", "wordCount"],
                      "properties": {"entryId": {"type": "integer"}, "bodyText": {"type": "string"}, "wordCount": {"type": "integer"}}},
    "EntryBrief": {"type": "object", "required": ["entryId"], "properties": {"entryId": {"type": "integer"}}},
    "EntryU": {"oneOf": [_ref("EntryDetailed"), _ref("EntryBrief")]},
    "DiscDog": {"type": "object", "required": ["petType", "bark"], "properties": {"petType": {"type": "string"}, "bark": {"type": "boolean"}}},
    "DiscCat": {"type": "object", "required": ["petType", "lives"], "properties": {"petType": {"type": "string"}, "lives": {"type": "integer"}}},
    "PetU": {"oneOf": [_ref("DiscDog"), _ref("DiscCat")],
             "discriminator": {"propertyName": "petType", "mapping": {"dog": "#/components/schemas/DiscDog", "puppy": "#/components/schemas/DiscDog",
                                                                      "cat": "#/components/schemas/DiscCat"}}},
}
NAMED_ENUMS = {
    "StateEnum": {"type": "string", "enum": ["inProgress", "done-now", "on hold", "UPPER", "snake_case"], "default": "inProgress"},
    "StateEnumUpper": {"type": "string", "enum": ["OPEN", "closedNow", "re_opened"], "default": "closedNow"},
}

REDUCED_KINDS = ["string", "date-time", "date", "uuid", "integer", "boolean", "str-enum", "arr-string", "arr-ref", "map-string", "ref",
                 "nullable-string", "inline-object"]


def single(kind, name="val", required=False, default=False):
    return {"fields": [{"name": name, "kind": kind, "required": bool(required), "default": bool(default)}]}


def singles(tier):
    out = []
    for k in KINDS:
        for req in (False, True):
            for dflt in (False, True):
                if dflt and KINDS[k][1] is None:
                    continue
                out.append(single(k, "val", req, dflt))
    name_kinds = ["string", "date", "arr-string"] if tier == "quick" else list(KINDS)
    for n in STYLE_NAMES:
        for k in name_kinds:
            for req in (False, True):
                dfl = [False, True] if (KINDS[k][1] is not None) else [False]
                for d in dfl:
                    out.append(single(k, n, req, d))
    seen = set()
    uniq = []
    for c in out:
        key = repr(c)
        if key not in seen:
            seen.add(key)
            uniq.append(c)
    return uniq


def pairs(tier):
    out = []
    for a, b in itertools.combinations(STYLE_NAMES, 2):
        out.append({"fields": [{"name": a, "kind": "string", "required": True, "default": False},
                               {"name": b, "kind": "integer", "required": False, "default": False}]})
    kinds = REDUCED_KINDS if tier == "quick" else list(KINDS)
    for ka, kb in itertools.combinations(kinds, 2):
        out.append({"fields": [{"name": "first", "kind": ka, "required": True, "default": False},
                               {"name": "second", "kind": kb, "required": False, "default": KINDS[kb][1] is not None}]})
    return out


COLLISION_FAMILIES = [("userName", "user_name", "user_name_2"), ("a-b", "a_b", "a_b_2"), ("addressLine", "address_line", "address_line_2"),
                      ("Class", "class", "class__2")]


def collisions(tier):
    """property names that collide after derivation, plus the name the de-collision would invent; every required pattern"""
    out = []
    for fam in COLLISION_FAMILIES:
        for mask in range(8):
            out.append({"fields": [{"name": n, "kind": ["string", "integer", "boolean"][i], "required": bool(mask >> i & 1), "default": False}
                                   for i, n in enumerate(fam)]})
        for mask in range(4):
            out.append({"fields": [{"name": n, "kind": ["string", "integer"][i], "required": bool(mask >> i & 1), "default": False}
                                   for i, n in enumerate(fam[:2])]})
    return out


WRAP_PROP = "inner-val"   # kebab-case: the wrapper needs a wire-key map of its own
WRAPS = ("obj", "arr", "map", "opt-obj")


def nested(tier):
    """every field kind one level further down: a wrapper model that holds the single-field model through a reference, an array of
    references, a map of references, and an optional reference (the inner field keeps a renamed wire key and is optional, so every
    instance of its menu - absent included - appears inside a list element and a map value)"""
    kinds = REDUCED_KINDS if tier == "quick" else list(KINDS)
    out = []
    for k in kinds:
        for w in WRAPS:
            for req in ((False,) if tier == "quick" else (False, True)):
                c = single(k, "innerField", req, False)
                c["wrap"] = w
                out.append(c)
    return out


def root_names(case):
    return [WRAP_PROP] if case.get("wrap") else [f["name"] for f in case["fields"]]


def wrapper_schema(case, inner_name):
    ref = {"$ref": f"#/components/schemas/{inner_name}"}
    w = case["wrap"]
    prop = {"obj": ref, "opt-obj": ref, "arr": {"type": "array", "items": ref}, "map": {"type": "object", "additionalProperties": ref}}[w]
    s = {"type": "object", "properties": {WRAP_PROP: prop, "tag": {"type": "string"}}}
    if w != "opt-obj":
        s["required"] = [WRAP_PROP]
    return s


def model_schema(case):
    props = {}
    req = []
    for f in case["fields"]:
        sch = KINDS[f["kind"]][0]
        sch = dict(sch) if sch is not None else None
        if f.get("default"):
            sch["default"] = KINDS[f["kind"]][1]
        props[f["name"]] = sch
        if f["required"]:
            req.append(f["name"])
    s = {"type": "object", "properties": props}
    if req:
        s["required"] = req
    return s


def pack_doc(cases, prefix="M"):
    """one document with one model per case (M0..Mk) plus the shared Tgt; models are independent of one another"""
    schemas = {t: TGT for t in TARGETS}
    schemas.update(NAMED_ENUMS)
    import copy

    schemas.update(copy.deepcopy(DISC_TARGETS))
    for i, c in enumerate(cases):
        if c.get("wrap"):
            schemas[f"{prefix}{i}Inner"] = model_schema(c)
            schemas[f"{prefix}{i}"] = wrapper_schema(c, f"{prefix}{i}Inner")
        else:
            schemas[f"{prefix}{i}"] = model_schema(c)
    return {"openapi": "3.0.3", "info": {"title": "F", "version": "1"}, "paths": {}, "components": {"schemas": schemas}}


def describe(case):
    if case.get("wrap"):
        return f"wrap:{case['wrap']}" + describe({"fields": case["fields"]})
    return "{" + ", ".join(f"{f['name']}:{f['kind']}{'!' if f['required'] else ''}{'=d' if f.get('default') else ''}" for f in case["fields"]) + "}"


def instances(case):
    """every combination of per-field {absent (if optional), each menu value}; <= 4^k documents"""
    if case.get("wrap"):
        inner = instances({"fields": case["fields"]})
        w = case["wrap"]
        if w == "obj":
            return [{WRAP_PROP: d} for d in inner]
        if w == "opt-obj":
            return [{"tag": "t"}] + [{WRAP_PROP: d, "tag": "t"} for d in inner]
        if w == "arr":
            return [{WRAP_PROP: []}] + [{WRAP_PROP: [d]} for d in inner] + [{WRAP_PROP: list(inner)}]
        return [{WRAP_PROP: {}}] + [{WRAP_PROP: {"k": d}} for d in inner] + [{WRAP_PROP: {f"k-{j}": d for j, d in enumerate(inner)}}]
    per = []
    for f in case["fields"]:
        vals = [("v", v) for v in KINDS[f["kind"]][2]]
        # dedupe
        uniq = []
        for t in vals:
            if t not in uniq:
                uniq.append(t)
        if not f["required"]:
            uniq = [("absent", None)] + uniq
        per.append((f["name"], uniq))
    out = []
    for combo in itertools.product(*[u for _, u in per]):
        d = {}
        for (name, _), (tag, v) in zip(per, combo):
            if tag == "v":
                d[name] = v
        out.append(d)
    return out
