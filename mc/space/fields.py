"""Σ-field: property shapes (kind x required x default x name style), model documents built from them, and the finite
instance menus used by the round-trip checks."""
from __future__ import annotations

import itertools

STYLE_NAMES = ["name", "userName", "user_name", "user-name", "X-Req-Id", "id", "type", "class", "date", "field", "2fa", "_x"]

TGT = {"type": "object", "required": ["id"], "properties": {"id": {"type": "integer"}, "label": {"type": "string"}}}
REF_TGT = {"$ref": "#/components/schemas/Tgt"}

# kind -> (schema, default value or None, instances [typical, typical, edge])
KINDS = {
    "string": ({"type": "string"}, "dflt", ["a", "hello world", "é\"\\\n名"]),
    "date-time": ({"type": "string", "format": "date-time"}, None,
                  ["2020-01-02T03:04:05Z", "2021-12-31T23:59:59+02:00", "2020-01-02T03:04:05.123456+00:00"]),
    "date": ({"type": "string", "format": "date"}, None, ["2020-01-02", "1999-12-31", "2024-02-29"]),
    "time": ({"type": "string", "format": "time"}, None, ["03:04:05", "23:59:59", "00:00:00"]),
    "uuid": ({"type": "string", "format": "uuid"}, None,
             ["123e4567-e89b-12d3-a456-426614174000", "00000000-0000-0000-0000-000000000000", "ffffffff-ffff-4fff-bfff-ffffffffffff"]),
    "byte": ({"type": "string", "format": "byte"}, None, ["aGVsbG8=", "AA==", ""]),
    "binary": ({"type": "string", "format": "binary"}, None, ["raw", "x", ""]),
    "email": ({"type": "string", "format": "email"}, None, ["a@b.c", "x@y.z", "é@b.c"]),
    "uri": ({"type": "string", "format": "uri"}, None, ["http://a/b", "https://x.y/z?q=1", "urn:x"]),
    "integer": ({"type": "integer"}, 7, [1, -5, 0]),
    "int64": ({"type": "integer", "format": "int64"}, None, [1, 1099511627776, -1]),
    "number": ({"type": "number"}, 1.5, [1.5, -2.25, 0.0]),
    "double": ({"type": "number", "format": "double"}, None, [1.5, 1e10, -0.5]),
    "boolean": ({"type": "boolean"}, True, [True, False, False]),
    "str-enum": ({"type": "string", "enum": ["a", "b-c", "D"]}, "a", ["a", "b-c", "D"]),
    "int-enum": ({"type": "integer", "enum": [1, 2, 3]}, None, [1, 2, 3]),
    "arr-string": ({"type": "array", "items": {"type": "string"}}, ["x"], [["a"], ["a", "b"], []]),
    "arr-integer": ({"type": "array", "items": {"type": "integer"}}, None, [[1], [1, 2], []]),
    "arr-datetime": ({"type": "array", "items": {"type": "string", "format": "date-time"}}, None,
                     [["2020-01-02T03:04:05Z"], ["2020-01-02T03:04:05Z", "2021-01-02T03:04:05Z"], []]),
    "arr-ref": ({"type": "array", "items": REF_TGT}, None, [[{"id": 1}], [{"id": 1, "label": "l"}, {"id": 2}], []]),
    "map-string": ({"type": "object", "additionalProperties": {"type": "string"}}, None, [{"k": "v"}, {"a": "b", "c": "d"}, {}]),
    "map-ref": ({"type": "object", "additionalProperties": REF_TGT}, None, [{"k": {"id": 1}}, {"a": {"id": 1}, "b": {"id": 2, "label": "l"}}, {}]),
    "ref": (REF_TGT, None, [{"id": 1}, {"id": 2, "label": "l"}, {"id": 0}]),
    "nullable-string": ({"type": "string", "nullable": True}, None, ["a", None, ""]),
    "nullable-ref": ({"allOf": [REF_TGT], "nullable": True}, None, [{"id": 1}, None, {"id": 2, "label": "x"}]),
    "type-list-null": ({"type": ["string", "null"]}, None, ["a", None, "b"]),
    "free-object": ({"type": "object"}, None, [{"a": 1}, {"b": {"c": [1, 2]}}, {}]),
    "inline-object": ({"type": "object", "properties": {"x": {"type": "integer"}, "y": {"type": "string"}}}, None,
                      [{"x": 1}, {"x": 2, "y": "s"}, {}]),
    "oneof-ref-string": ({"oneOf": [REF_TGT, {"type": "string"}]}, None, [{"id": 1}, "s", {"id": 2, "label": "l"}]),
    "any": ({}, None, [1, "s", {"a": [1]}]),
}

REDUCED_KINDS = ["string", "date-time", "date", "uuid", "integer", "boolean", "str-enum", "arr-string", "arr-ref", "map-string", "ref",
                 "nullable-string", "inline-object"]


def single(kind, name="val", required=False, default=False):
    return {"fields": [{"name": name, "kind": kind, "required": bool(required), "default": bool(default)}]}


def singles(tier):
    out = []
    for k in KINDS:
        for req in (False, True):
            for dflt in (False, True):
                if dflt and KINDS[k][1] is None:
                    continue
                out.append(single(k, "val", req, dflt))
    name_kinds = ["string", "date", "arr-string"] if tier == "quick" else list(KINDS)
    for n in STYLE_NAMES:
        for k in name_kinds:
            for req in (False, True):
                dfl = [False, True] if (KINDS[k][1] is not None) else [False]
                for d in dfl:
                    out.append(single(k, n, req, d))
    seen = set()
    uniq = []
    for c in out:
        key = repr(c)
        if key not in seen:
            seen.add(key)
            uniq.append(c)
    return uniq


def pairs(tier):
    out = []
    for a, b in itertools.combinations(STYLE_NAMES, 2):
        out.append({"fields": [{"name": a, "kind": "string", "required": True, "default": False},
                               {"name": b, "kind": "integer", "required": False, "default": False}]})
    kinds = REDUCED_KINDS if tier == "quick" else list(KINDS)
    for ka, kb in itertools.combinations(kinds, 2):
        out.append({"fields": [{"name": "first", "kind": ka, "required": True, "default": False},
                               {"name": "second", "kind": kb, "required": False, "default": KINDS[kb][1] is not None}]})
    return out


def model_schema(case):
    props = {}
    req = []
    for f in case["fields"]:
        sch = dict(KINDS[f["kind"]][0])
        if f.get("default"):
            sch["default"] = KINDS[f["kind"]][1]
        props[f["name"]] = sch
        if f["required"]:
            req.append(f["name"])
    s = {"type": "object", "properties": props}
    if req:
        s["required"] = req
    return s


def pack_doc(cases, prefix="M"):
    """one document with one model per case (M0..Mk) plus the shared Tgt; models are independent of one another"""
    schemas = {"Tgt": TGT}
    for i, c in enumerate(cases):
        schemas[f"{prefix}{i}"] = model_schema(c)
    return {"openapi": "3.0.3", "info": {"title": "F", "version": "1"}, "paths": {}, "components": {"schemas": schemas}}


def describe(case):
    return "{" + ", ".join(f"{f['name']}:{f['kind']}{'!' if f['required'] else ''}{'=d' if f.get('default') else ''}" for f in case["fields"]) + "}"


def instances(case):
    """every combination of per-field {absent (if optional), each menu value}; <= 4^k documents"""
    per = []
    for f in case["fields"]:
        vals = [("v", v) for v in KINDS[f["kind"]][2]]
        # dedupe
        uniq = []
        for t in vals:
            if t not in uniq:
                uniq.append(t)
        if not f["required"]:
            uniq = [("absent", None)] + uniq
        per.append((f["name"], uniq))
    out = []
    for combo in itertools.product(*[u for _, u in per]):
        d = {}
        for (name, _), (tag, v) in zip(per, combo):
            if tag == "v":
                d[name] = v
        out.append(d)
    return out
