"""Σ-graph: all small directed multigraphs of named object schemas with every edge kind, every declaration order.

A graph case is JSON-able:
    {"menu": "neutral"|"prefix", "order": [declaration order of node indices], "nodes": [[edge, ...], ...]}
    edge = [kind, target_index, required(0/1)]
Every node is an object schema with scalar properties v:integer (required) and w:string (optional) - so a model that
lost everything is distinguishable from an empty one - plus one property e<i> per property-kind edge; allOf kinds are
expressed at schema level.
"""
from __future__ import annotations

import itertools

MENUS = {"neutral": ["A", "B", "C"], "prefix": ["User", "UserGroup", "UserGroupItem"]}

PROP_KINDS = ["ref", "arr", "inl", "arrinl", "map", "oneof", "anyof"]
ALLOF_KINDS = ["allof", "allofreq"]
ALL_KINDS = PROP_KINDS + ALLOF_KINDS


def R(name):
    return {"$ref": "#/components/schemas/" + name}


def edge_schema(kind, tname):
    if kind == "ref":
        return R(tname)
    if kind == "arr":
        return {"type": "array", "items": R(tname)}
    if kind == "inl":
        return {"type": "object", "properties": {"x": R(tname)}}
    if kind == "arrinl":
        return {"type": "array", "items": {"type": "object", "properties": {"x": R(tname)}}}
    if kind == "map":
        return {"type": "object", "additionalProperties": R(tname)}
    if kind == "oneof":
        return {"oneOf": [R(tname), {"type": "string"}]}
    if kind == "anyof":
        return {"anyOf": [R(tname), {"type": "integer"}]}
    raise ValueError(kind)


def node_schema(idx, edges, names):
    props = {"v": {"type": "integer"}, "w": {"type": "string"}}
    required = ["v"]
    parents = []
    for i, (kind, tgt, req) in enumerate(edges):
        if kind in ALLOF_KINDS:
            parents.append((kind, names[tgt]))
            continue
        props[f"e{idx}{i}"] = edge_schema(kind, names[tgt])
        if req:
            required.append(f"e{idx}{i}")
    own = {"type": "object", "required": required, "properties": props}
    if not parents:
        return own
    members = []
    for kind, tname in parents:
        members.append(R(tname))
        if kind == "allofreq":
            members.append({"required": ["w"]})
    members.append(own)
    return {"allOf": members}


def doc_of(case):
    names = MENUS[case["menu"]]
    schemas = {}
    for idx in case["order"]:
        schemas[names[idx]] = node_schema(idx, case["nodes"][idx], names)
    return {"openapi": "3.0.3", "info": {"title": "G", "version": "1"}, "paths": {}, "components": {"schemas": schemas}}


def allof_acyclic(nodes):
    """allOf-only cycles (A inherits from B inherits from A) have no finite meaning: excluded from the space."""
    n = len(nodes)
    adj = {i: [t for k, t, r in nodes[i] if k in ALLOF_KINDS] for i in range(n)}
    state = {}

    def dfs(u):
        state[u] = 1
        for v in adj[u]:
            if state.get(v) == 1:
                return False
            if v not in state and not dfs(v):
                return False
        state[u] = 2
        return True

    return all(dfs(i) for i in range(n) if i not in state)


def has_cycle(nodes):
    n = len(nodes)
    adj = {i: [t for k, t, r in nodes[i]] for i in range(n)}
    state = {}

    def dfs(u):
        state[u] = 1
        for v in adj[u]:
            if state.get(v) == 1:
                return True
            if v not in state and dfs(v):
                return True
        state[u] = 2
        return False

    return any(dfs(i) for i in range(n) if i not in state)


def slot_options(n, kinds, req_flags):
    opts = []
    for k in kinds:
        for t in range(n):
            if k in ALLOF_KINDS:
                opts.append([k, t, 0])
            else:
                for r in req_flags:
                    opts.append([k, t, r])
    return opts


def node_options(n, d, kinds, req_flags):
    """all edge lists with <= d edges (unordered multisets), simplest first"""
    opts = slot_options(n, kinds, req_flags)
    out = [[]]
    for k in range(1, d + 1):
        for combo in itertools.combinations_with_replacement(range(len(opts)), k):
            edges = [opts[i] for i in combo]
            # at most one allOf-parent per target
            out.append(edges)
    return out


def graphs(n, d, kinds=ALL_KINDS, req_flags=(0, 1), menus=("neutral", "prefix"), orders="all"):
    per_node = node_options(n, d, kinds, req_flags)
    perms = list(itertools.permutations(range(n))) if orders == "all" else [tuple(range(n))]
    out = []
    for combo in itertools.product(range(len(per_node)), repeat=n):
        nodes = [per_node[i] for i in combo]
        if not allof_acyclic(nodes):
            continue
        if any(k in ALLOF_KINDS and t == i for i, es in enumerate(nodes) for k, t, r in es):
            continue
        for menu in menus:
            for order in perms:
                out.append({"menu": menu, "order": list(order), "nodes": nodes})
    return out


def describe(case):
    names = MENUS[case["menu"]]
    parts = []
    for idx in case["order"]:
        es = ",".join(f"{k}{'!' if r else ''}->{names[t]}" for k, t, r in case["nodes"][idx])
        parts.append(f"{names[idx]}{{{es}}}")
    return " ; ".join(parts)
