"""Σ-op: operations (method x path x parameters x body x responses x tags x operationId) and documents packed from them.

An op case is JSON-able:
  {"method": "get", "path": "/a/{id}", "params": [param...], "body": {"kind": k, "required": bool} | None,
   "responses": {"200": content_kind, ...}, "tags": [...] | None, "op_id": str | None}
  param = {"name": str, "in": path|query|header|cookie, "required": bool, "kind": str, "at": "op"|"path"|"both"}
"""
from __future__ import annotations

import copy
import json
import re


def R(n):
    return {"$ref": "#/components/schemas/" + n}


SCHEMAS = {
    "Item": {"type": "object", "required": ["id"], "properties": {
        "id": {"type": "integer"}, "displayName": {"type": "string"}, "createdAt": {"type": "string", "format": "date-time"},
        "tags": {"type": "array", "items": {"type": "string"}}}},
    "Other": {"type": "object", "required": ["code"], "properties": {"code": {"type": "string"}, "detail": {"type": "string"}}},
    "Third": {"type": "object", "required": ["flag"], "properties": {"flag": {"type": "boolean"}}},
    "ItemList": {"type": "array", "items": R("Item")},
    "Count": {"type": "integer"},
    "MaybeItem": {"allOf": [R("Item")], "nullable": True},
    "Err": {"type": "object", "properties": {"message": {"type": "string"}}},
    "Shade": {"type": "string", "enum": ["light", "dark-blue", "RED"]},
    "Level": {"type": "integer", "enum": [1, 2, 3]},
    "MaybeOpt": {"type": "object", "nullable": True, "properties": {"c": {"type": "boolean"}}},   # {} conforms and is not null
    "MaybeItemList": {"type": "array", "nullable": True, "items": R("Item")},                    # [] conforms and is not null
}

ITEM_BODIES = [{"id": 1}, {"id": 2, "displayName": "n", "createdAt": "2020-01-02T03:04:05+00:00", "tags": ["a", "b"]}]
OTHER_BODIES = [{"code": "c"}, {"code": "d", "detail": "x"}]
THIRD_BODIES = [{"flag": True}]

# ---- parameters -------------------------------------------------------------------------------
# kind -> (schema, [plain value, value needing escaping/serialisation])
PARAM_KINDS = {
    "string": ({"type": "string"}, ["abc", "a b/é&=?"]),
    "integer": ({"type": "integer"}, [5, -12]),
    "boolean": ({"type": "boolean"}, [True, False]),
    "number": ({"type": "number"}, [1.5, 2.0]),
    "arr-string": ({"type": "array", "items": {"type": "string"}}, [["x"], ["x", "y z"]]),
    "str-enum": ({"type": "string", "enum": ["asc", "desc"]}, ["asc", "desc"]),
    "date": ({"type": "string", "format": "date"}, ["2020-01-02", "1999-12-31"]),
    "date-time": ({"type": "string", "format": "date-time"}, ["2020-01-02T03:04:05+00:00", "2021-06-07T08:09:10+02:00"]),
}

# the last four start like header names that OpenAPI tells generators to ignore (Accept, Content-Type, Authorization) but are ordinary parameters
PARAM_NAMES = ["name", "userName", "user_name", "user-name", "X-Req-Id", "id", "type", "class", "date", "field", "2fa", "_x",
               "Accept-Language", "Accept-Version", "Content-Type-Options", "Authorization-Context"]


def param(name, loc, required, kind, at="op"):
    return {"name": name, "in": loc, "required": bool(required) or loc == "path", "kind": kind, "at": at}


def param_obj(p):
    o = {"name": p["name"], "in": p["in"], "schema": copy.deepcopy(PARAM_KINDS[p["kind"]][0])}
    if p["required"]:
        o["required"] = True
    return o


# ---- request bodies ----------------------------------------------------------------------------
INLINE_OBJ = {"type": "object", "properties": {"a": {"type": "string"}, "n": {"type": "integer"}}}
FORM_OBJ = {"type": "object", "properties": {"a": {"type": "string"}, "b": {"type": "integer"}}}
FILE_OBJ = {"type": "object", "properties": {"file": {"type": "string", "format": "binary"}}}

BODY_KINDS = {
    "json-ref": {"application/json": {"schema": R("Item")}},
    "json-inline": {"application/json": {"schema": INLINE_OBJ}},
    "json-array-ref": {"application/json": {"schema": {"type": "array", "items": R("Item")}}},
    "json-string": {"application/json": {"schema": {"type": "string"}}},
    "json-array-inline": {"application/json": {"schema": {"type": "array", "items": INLINE_OBJ}}},   # bulk endpoint: array of unnamed objects
    "json-array-bool": {"application/json": {"schema": {"type": "array", "items": {"type": "boolean"}}}},
    "json-boolean": {"application/json": {"schema": {"type": "boolean"}}},
    "json-integer": {"application/json": {"schema": {"type": "integer"}}},
    "form": {"application/x-www-form-urlencoded": {"schema": FORM_OBJ}},
    "multipart": {"multipart/form-data": {"schema": FILE_OBJ}},
    "octet": {"application/octet-stream": {"schema": {"type": "string", "format": "binary"}}},
    "text": {"text/plain": {"schema": {"type": "string"}}},
    "octet-noschema": {"application/octet-stream": {}},   # OAS 3.1 way of describing a raw binary body
    "json-noschema": {"application/json": {}},
    "multipart-noschema": {"multipart/form-data": {}},
    "json+multipart": {"application/json": {"schema": R("Item")}, "multipart/form-data": {"schema": FILE_OBJ}},
    "json+form": {"application/json": {"schema": R("Item")}, "application/x-www-form-urlencoded": {"schema": FORM_OBJ}},
}

# argument values per body kind: list of (python arg name -> tagged JSON value, expected wire description)
B64_FILE = "ZmlsZS1ieXRlcw=="  # b"file-bytes"
BODY_ARGS = {
    "json-ref": [({"body": b}, {"ctype": "application/json", "json": b}) for b in ITEM_BODIES],
    "json-inline": [({"body": {"a": "x", "n": 3}}, {"ctype": "application/json", "json": {"a": "x", "n": 3}}),
                    ({"body": {"a": "é"}}, {"ctype": "application/json", "json": {"a": "é"}})],
    "json-array-ref": [({"body": ITEM_BODIES}, {"ctype": "application/json", "json": ITEM_BODIES}),
                       ({"body": []}, {"ctype": "application/json", "json": []}),
                       ({"body": {"$repeat": [ITEM_BODIES[1], 3]}}, {"ctype": "application/json", "json": [ITEM_BODIES[1]] * 3})],
    "json-string": [({"body": "hello"}, {"ctype": "application/json", "json": "hello"})],
    "json-array-bool": [({"body": [True, False]}, {"ctype": "application/json", "json": [True, False]})],
    "json-boolean": [({"body": True}, {"ctype": "application/json", "json": True}), ({"body": False}, {"ctype": "application/json", "json": False})],
    "json-integer": [({"body": 0}, {"ctype": "application/json", "json": 0}), ({"body": 7}, {"ctype": "application/json", "json": 7})],
    "json-array-inline": [({"body": [{"a": "x", "n": 3}, {"a": "y"}]}, {"ctype": "application/json", "json": [{"a": "x", "n": 3}, {"a": "y"}]}),
                          ({"body": []}, {"ctype": "application/json", "json": []})],
    "form": [({"form_data": {"a": "x y", "b": 2}}, {"ctype": "application/x-www-form-urlencoded", "form": {"a": "x y", "b": "2"}})],
    "multipart": [({"files": {"$files": {"file": B64_FILE}}}, {"ctype": "multipart/form-data", "contains_b64": B64_FILE})],
    "octet": [({"bytes_content": {"$bytes": B64_FILE}}, {"ctype": "application/octet-stream", "raw_b64": B64_FILE})],
    "text": [({"bytes_content": {"$bytes": "aGVsbG8="}}, {"ctype": "text/plain", "raw_b64": "aGVsbG8="})],
    "octet-noschema": [({"bytes_content": {"$bytes": B64_FILE}}, {"ctype": "application/octet-stream", "raw_b64": B64_FILE})],
    "json-noschema": [({"body": {"a": 1}}, {"ctype": "application/json", "json": {"a": 1}})],
    "multipart-noschema": [({"files": {"$files": {"file": B64_FILE}}}, {"ctype": "multipart/form-data", "contains_b64": B64_FILE})],
    "json+multipart": [({"body": ITEM_BODIES[0]}, {"ctype": "application/json", "json": ITEM_BODIES[0]}),
                       ({"files": {"$files": {"file": B64_FILE}}}, {"ctype": "multipart/form-data", "contains_b64": B64_FILE})],
    "json+form": [({"body": ITEM_BODIES[1]}, {"ctype": "application/json", "json": ITEM_BODIES[1]}),
                  ({"data": {"a": "x", "b": 2}}, {"ctype": "application/x-www-form-urlencoded", "form": {"a": "x", "b": "2"}})],
}

# ---- responses -----------------------------------------------------------------------------------
UNION2 = {"oneOf": [R("Item"), R("Other")]}
UNION3 = {"oneOf": [R("Item"), R("Other"), R("Third")]}


def _j(schema):
    return {"application/json": {"schema": schema}}


# content kind -> (content object | None, [(content-type header, body bytes, expected JSON of the returned value)])
def _jb(v):
    return ("application/json", json.dumps(v).encode(), v)


RESP_KINDS = {
    "none": (None, [("", b"", None)]),
    "json-empty-schema": (_j({}), [_jb({"a": 1}), _jb([1, 2])]),
    "json-model": (_j(R("Item")), [_jb(b) for b in ITEM_BODIES]),
    "json-other": (_j(R("Other")), [_jb(b) for b in OTHER_BODIES]),
    "json-array-model": (_j({"type": "array", "items": R("Item")}), [_jb(ITEM_BODIES), _jb([])]),
    "json-integer": (_j({"type": "integer"}), [_jb(5)]),
    "json-string": (_j({"type": "string"}), [_jb("s")]),
    "json-map": (_j({"type": "object", "additionalProperties": {"type": "integer"}}), [_jb({"a": 1, "b": 2}), _jb({})]),
    "alias-array": (_j(R("ItemList")), [_jb(ITEM_BODIES)]),
    "alias-scalar": (_j(R("Count")), [_jb(7)]),
    "nullable-model": (_j(R("MaybeItem")), [_jb(ITEM_BODIES[0]), _jb(None)]),
    "nullable-opt-model": (_j(R("MaybeOpt")), [_jb({"c": True}), _jb({}), _jb(None)]),
    "nullable-alias-array": (_j(R("MaybeItemList")), [_jb(ITEM_BODIES), _jb([]), _jb(None)]),
    # unnamed arrays of unnamed objects: two different ones in one document must not share an item class
    "json-array-inline-a": (_j({"type": "array", "items": {"type": "object", "required": ["p"], "properties": {"p": {"type": "string"}}}}), [_jb([{"p": "x"}]), _jb([])]),
    "json-array-inline-b": (_j({"type": "array", "items": {"type": "object", "required": ["q"], "properties": {"q": {"type": "integer"}, "r": {"type": "string"}}}}),
                            [_jb([{"q": 1, "r": "y"}, {"q": 2}])]),
    "json-inline-object": (_j(INLINE_OBJ), [_jb({"a": "x", "n": 3}), _jb({})]),
    # inline bodies that have `properties` but do not write `type: object`; two different ones may sit under two statuses of one operation
    "json-inline-typeless-a": (_j({"properties": {"id": {"type": "string"}, "revision": {"type": "integer"}}}), [_jb({"id": "w1", "revision": 3})]),
    "json-inline-typeless-b": (_j({"properties": {"id": {"type": "string"}, "location": {"type": "string"}}}), [_jb({"id": "w2", "location": "/w/2"})]),
    # YAML media types (the body below is valid YAML and valid JSON)
    # JSON declared without any schema; a union whose second variant is an array of a model with renamed fields
    "json-no-schema": ({"application/json": {}}, [_jb({"a": 1}), _jb([1, "x"])]),
    "union-model-or-array": (_j({"oneOf": [R("Other"), {"type": "array", "items": R("Item")}]}), [_jb(ITEM_BODIES), _jb(OTHER_BODIES[1])]),
    "yaml-model": ({"application/yaml": {"schema": R("Item")}}, [("application/yaml", json.dumps(ITEM_BODIES[0]).encode(), ITEM_BODIES[0])]),
    # the whole body is a named enum: the annotated type is the enum class, not its base type
    "json-enum-ref": (_j(R("Shade")), [_jb("light"), _jb("dark-blue")]),
    "json-int-enum-ref": (_j(R("Level")), [_jb(2)]),
    "union2": (_j(UNION2), [_jb(ITEM_BODIES[1]), _jb(OTHER_BODIES[0])]),
    "union3": (_j(UNION3), [_jb(ITEM_BODIES[0]), _jb(OTHER_BODIES[1]), _jb(THIRD_BODIES[0])]),
    "text-plain": ({"text/plain": {"schema": {"type": "string"}}}, [("text/plain; charset=utf-8", "héllo".encode(), "héllo")]),
    "text-html": ({"text/html": {"schema": {"type": "string"}}}, [("text/html; charset=utf-8", b"<p>x</p>", "<p>x</p>")]),
    "octet": ({"application/octet-stream": {"schema": {"type": "string", "format": "binary"}}},
              [("application/octet-stream", b"\x00\x01bin", {"$bytes": "AAFiaW4="})]),
    "image": ({"image/png": {"schema": {"type": "string", "format": "binary"}}}, [("image/png", b"\x89PNG", {"$bytes": "iVBORw=="})]),
    "json+text": ({"application/json": {"schema": R("Item")}, "text/plain": {"schema": {"type": "string"}}},
                  [_jb(ITEM_BODIES[0]), ("text/plain; charset=utf-8", b"plain", "plain"),
                   ("Application/JSON; charset=UTF-8", json.dumps(ITEM_BODIES[1]).encode(), ITEM_BODIES[1]), ("Text/Plain", b"plain2", "plain2")]),
    "text+csv+json": ({"text/plain": {"schema": {"type": "string"}}, "text/csv": {"schema": {"type": "string"}}, "application/json": {"schema": R("Item")}},
                      [("text/plain; charset=utf-8", b"plain", "plain"), ("text/csv; charset=utf-8", b"a,b", "a,b"), _jb(ITEM_BODIES[0])]),
    "pdf+png+json": ({"application/pdf": {"schema": {"type": "string", "format": "binary"}}, "image/png": {"schema": {"type": "string", "format": "binary"}},
                      "application/json": {"schema": R("Item")}},
                     [("application/pdf", b"%PDF\xff", {"$bytes": "JVBERv8="}), ("image/png", b"\x89PNG", {"$bytes": "iVBORw=="}), _jb(ITEM_BODIES[0])]),
}
STREAM_KINDS = {
    "event-stream": {"text/event-stream": {"schema": R("Item")}},
    "ndjson": {"application/x-ndjson": {"schema": R("Item")}},
}


def response_obj(kind, desc="d"):
    content = RESP_KINDS[kind][0] if kind in RESP_KINDS else STREAM_KINDS[kind]
    o = {"description": desc}
    if content is not None:
        o["content"] = copy.deepcopy(content)
    return o


# ---- documents --------------------------------------------------------------------------------------
def op(method="get", path="/a", params=(), body=None, responses=None, tags=None, op_id=None):
    return {"method": method, "path": path, "params": list(params), "body": body,
            "responses": responses if responses is not None else {"204": "none"}, "tags": tags, "op_id": op_id}


def shared_item_groups():
    """groups of operations that live under ONE path item which declares a path, a header and a query parameter at path level"""
    groups = []
    for methods in (("get", "post"), ("get", "put", "delete")):
        g = []
        for m in methods:
            c = op(m, "/shared/{id}", [param("id", "path", True, "integer", "path"), param("X-Tenant", "header", True, "string", "path"), param("q", "query", False, "string", "path")],
                   {"kind": "json-ref", "required": True} if m in ("put", "post") else None, {"200": "json-model"})
            c["item"] = "s" + str(len(methods))
            g.append(c)
        groups.append(g)
    return groups


def tag_name(i):
    """auto tag of operation i: letters only, so that no name derivation splits or rewrites it"""
    return "t" + chr(97 + (i // 26) % 26) + chr(97 + i % 26)


def op_obj(case, idx, auto_tag=True, auto_id=True):
    o = {}
    if case.get("op_id") is not None:
        o["operationId"] = case["op_id"]
    elif auto_id:
        o["operationId"] = f"op{idx}"
    if case.get("deprecated"):
        o["deprecated"] = True
    if case.get("tags") is not None:
        o["tags"] = list(case["tags"])
    elif auto_tag:
        o["tags"] = [tag_name(idx)] + ([tag_name(idx) + "zz"] if case.get("two_tags") else [])
    ps = [param_obj(p) for p in case["params"] if p["at"] in ("op", "both")]
    if ps:
        o["parameters"] = ps
    if case.get("body"):
        o["requestBody"] = {"content": copy.deepcopy(BODY_KINDS[case["body"]["kind"]])}
        if case["body"].get("required"):
            o["requestBody"]["required"] = True
    o["responses"] = {str(k): response_obj(v) for k, v in case["responses"].items()}
    return o


def build_doc(cases, auto_tag=True, auto_id=True, prefix=True, refs=False):
    """pack operations into one document; op i lives under /o<i><path> (distinct paths), tag t<i>, operationId op<i>.
    refs=True: every parameter, response and request body is declared once under components/{parameters,responses,requestBodies}
    (keyed by its full shape) and referenced with $ref - the same operations, written the way large real documents are."""
    paths = {}
    meta = []
    for i, c in enumerate(cases):
        # cases carrying the same "item" key share ONE path item (several operations under one path, path-level parameters in common)
        path = (f"/o{c['item']}" if c.get("item") is not None else (f"/o{i}" if prefix else "")) + c["path"]
        item = paths.setdefault(path, {})
        pl = [param_obj(p) for p in c["params"] if p["at"] in ("path", "both")]
        if pl:
            item.setdefault("parameters", [])
            for p in pl:
                if p not in item["parameters"]:
                    item["parameters"].append(p)
        item[c["method"]] = op_obj(c, i, auto_tag, auto_id)
        meta.append({"index": i, "path": path, "method": c["method"].upper(), "tag": (c.get("tags") or [tag_name(i)])[0] if (c.get("tags") or auto_tag) else "default",
                     "op_id": c.get("op_id") or f"op{i}"})
    doc = {"openapi": "3.0.3", "info": {"title": "O", "version": "1"}, "paths": paths, "components": {"schemas": copy.deepcopy(SCHEMAS)}}
    if refs:
        comp = doc["components"]
        comp["parameters"], comp["responses"], comp["requestBodies"] = {}, {}, {}

        def key_of(prefix_, obj):
            import hashlib

            return prefix_ + hashlib.sha1(json.dumps(obj, sort_keys=True).encode()).hexdigest()[:8]

        def lift_params(holder):
            out = []
            for p in holder.get("parameters", []):
                k = key_of("P", p)
                comp["parameters"][k] = p
                out.append({"$ref": "#/components/parameters/" + k})
            if out:
                holder["parameters"] = out

        for path, item in paths.items():
            lift_params(item)
            for m, o in item.items():
                if m == "parameters":
                    continue
                lift_params(o)
                if "requestBody" in o:
                    k = key_of("B", o["requestBody"])
                    comp["requestBodies"][k] = o["requestBody"]
                    o["requestBody"] = {"$ref": "#/components/requestBodies/" + k}
                for st, r in list(o["responses"].items()):
                    k = key_of("R", r)   # the SAME component response is shared by every status / operation that declares this shape
                    comp["responses"][k] = r
                    o["responses"][st] = {"$ref": "#/components/responses/" + k}
    return doc, meta


def path_regex(template):
    rx = re.sub(r"\{[^}]+\}", "[^/]+", template)
    return "^" + rx + "$"


def describe(c):
    ps = ",".join(f"{p['in']}:{p['name']}:{p['kind']}{'!' if p['required'] else ''}@{p['at']}" for p in c["params"])
    b = f" body={c['body']['kind']}{'!' if c['body'].get('required') else ''}" if c.get("body") else ""
    r = ",".join(f"{k}:{v}" for k, v in c["responses"].items())
    t = f" tags={c['tags']}" if c.get("tags") is not None else ""
    o = f" id={c['op_id']}" if c.get("op_id") is not None else ""
    it = (f" item={c['item']}" if c.get("item") is not None else "") + (" deprecated" if c.get("deprecated") else "")
    return f"{c['method'].upper()} {c['path']} [{ps}]{b} -> {r}{t}{o}{it}"
