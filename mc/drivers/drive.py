"""C04/C05/C06 driver: call generated methods with given arguments against a scripted in-memory server and report what went
on the wire and what came back."""
import base64
import inspect
import typing

import drvlib


def run(args):
    pkg, core = args["package"], args["core"]
    out = {"calls": [], "errors": []}
    try:
        server = drvlib.Server()
        client = drvlib.make_client(pkg, core, server, args.get("transport", "bundled"), transport_kwargs=args.get("transport_kwargs"))
    except BaseException as e:  # noqa
        if isinstance(e, (KeyboardInterrupt, SystemExit, TimeoutError)):
            raise
        out["errors"].append({"stage": "make_client", "error": drvlib.norm_exc(e), "raw": f"{type(e).__name__}: {e}"[:400]})
        return out
    sigs = {}
    for call in args["calls"]:
        rec = {"id": call["id"]}
        try:
            tc = getattr(client, call["prop"])
            meth = getattr(tc, call["method"])
        except BaseException as e:  # noqa
            rec["lookup_error"] = f"{type(e).__name__}: {e}"[:300]
            out["calls"].append(rec)
            continue
        fn = getattr(type(tc), call["method"])
        key = (call["prop"], call["method"])
        if key not in sigs:
            hints = drvlib.hints_of(fn)
            sig = inspect.signature(fn)
            sigs[key] = (hints, sig)
        hints, sig = sigs[key]
        rec["params"] = [[p.name, p.default is inspect.Parameter.empty] for p in sig.parameters.values() if p.name != "self"]
        rec["return_annotation"] = str(hints.get("return", sig.return_annotation))
        kwargs = {}
        try:
            for k, v in call["kwargs"].items():
                if k not in sig.parameters:
                    rec.setdefault("unknown_args", []).append(k)
                    continue
                kwargs[k] = drvlib.build_value(hints.get(k, typing.Any), v)
        except BaseException as e:  # noqa
            rec["build_error"] = f"{type(e).__name__}: {e}"[:300]
            out["calls"].append(rec)
            continue
        if rec.get("unknown_args"):
            out["calls"].append(rec)
            continue
        r = call.get("response") or {"status": 200}
        body = base64.b64decode(r.get("body_b64", "")) if r.get("body_b64") else b""
        headers = {}
        if r.get("ctype"):
            headers["content-type"] = r["ctype"]
        headers.update(r.get("headers") or {})
        chunks = [base64.b64decode(c) for c in r["chunks_b64"]] if r.get("chunks_b64") is not None else None
        server.requests.clear()
        server.set(r.get("status", 200), headers, body, chunks)
        res = drvlib.call_method(meth, kwargs)
        rec["requests"] = list(server.requests)
        rec["kind"] = res["kind"]
        rec["nature"] = "asyncgen" if inspect.isasyncgenfunction(fn) else "coroutine"
        if res["kind"] == "return":
            rec["value"] = drvlib.to_json(res["value"])
            rec["value_type"] = drvlib.type_name(res["value"])
            rec["conforms"] = drvlib.conforms(res["value"], hints.get("return", typing.Any))
        elif res["kind"] == "items":
            rec["value"] = [drvlib.to_json(v) for v in res["values"]]
            rec["value_type"] = [drvlib.type_name(v) for v in res["values"]]
        else:
            rec["exc"] = drvlib.exc_info(res["exc"], core)
        out["calls"].append(rec)
    return out
