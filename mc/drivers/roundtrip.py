"""C03/C14 driver: structure -> unstructure with the package's own bundled converter."""
import dataclasses
import importlib

import drvlib


def run(args):
    pkg, core = args["package"], args["core"]
    out = {"results": [], "errors": []}
    try:
        conv = importlib.import_module(core + ".cattrs_converter")
        models = importlib.import_module(pkg + ".models")
    except BaseException as e:  # noqa
        if isinstance(e, (KeyboardInterrupt, SystemExit, TimeoutError)):
            raise
        out["errors"].append({"stage": "import", "error": drvlib.norm_exc(e), "raw": f"{type(e).__name__}: {e}"[:400]})
        return out
    for job in args["jobs"]:
        cls = getattr(models, job["class"], None)
        rec = {"id": job["id"], "class": job["class"], "docs": []}
        if cls is None:
            rec["missing"] = True
            out["results"].append(rec)
            continue
        if dataclasses.is_dataclass(cls):
            load, dump = drvlib.wire_maps(cls)
            rec["meta_load"] = dict(load)
            rec["meta_dump"] = dict(dump)
            rec["fields"] = [f.name for f in dataclasses.fields(cls)]
        for doc in job["docs"]:
            d = {}
            try:
                obj = conv.structure_from_dict(doc, cls)
                d["type"] = type(obj).__name__
                d["field_types"] = {f.name: type(getattr(obj, f.name)).__name__ for f in dataclasses.fields(obj)} if dataclasses.is_dataclass(obj) else None
                try:
                    back = conv.unstructure_to_dict(obj)
                    d["back"] = drvlib.to_json(back)
                except BaseException as e:  # noqa
                    if isinstance(e, (KeyboardInterrupt, SystemExit, TimeoutError)):
                        raise
                    d["unstructure_error"] = {"type": type(e).__name__, "msg": str(e)[:300]}
            except BaseException as e:  # noqa
                if isinstance(e, (KeyboardInterrupt, SystemExit, TimeoutError)):
                    raise
                d["structure_error"] = {"type": type(e).__name__, "msg": str(e)[:300]}
            rec["docs"].append(d)
        out["results"].append(rec)
    return out
