"""Helpers shared by drivers that run inside the runtime-only interpreter (stdlib + httpx + cattrs only)."""
import asyncio
import base64
import dataclasses
import datetime
import enum
import importlib
import inspect
import io
import json
import os
import re
import sys
import typing
import uuid


def modules_under(root, package):
    """dotted names of every .py module under root/<package as path>, packages first"""
    base = os.path.join(root, *package.split("."))
    out = []
    for dp, dn, fn in os.walk(base):
        dn.sort()
        if "__pycache__" in dp:
            continue
        rel = os.path.relpath(dp, root)
        pkg = rel.replace(os.sep, ".")
        if "__init__.py" in fn:
            out.append(pkg)
        for f in sorted(fn):
            if f.endswith(".py") and f != "__init__.py":
                out.append(pkg + "." + f[:-3])
    return out


def norm_msg(msg):
    msg = str(msg)
    msg = re.sub(r"'[^']*'", "'*'", msg)
    msg = re.sub(r'"[^"]*"', '"*"', msg)
    msg = re.sub(r"\(?/[\w/.\-]+\)?", "<path>", msg)
    msg = re.sub(r"\d+", "N", msg)
    return msg[:160]


def norm_exc(e):
    """exception normalised for signatures: identifiers in quotes, paths and numbers abstracted"""
    return f"{type(e).__name__}: {norm_msg(e)}"


def try_import(name):
    try:
        return importlib.import_module(name), None
    except BaseException as e:  # noqa
        if isinstance(e, (KeyboardInterrupt, SystemExit, TimeoutError)):
            raise
        return None, e


# ----------------------------------------------------------------------------------------------
# values: JSON <-> typed python values, without using the package's own converter
# ----------------------------------------------------------------------------------------------
def hints_of(obj):
    try:
        return typing.get_type_hints(obj, include_extras=False)
    except Exception:
        try:
            return dict(getattr(obj, "__annotations__", {}))
        except Exception:
            return {}


def strip_optional(t):
    origin = typing.get_origin(t)
    if origin is typing.Union or (origin is not None and str(origin) == "<class 'types.UnionType'>"):
        args = [a for a in typing.get_args(t) if a is not type(None)]
        return args, True
    return [t], False


def wire_maps(cls):
    meta = getattr(cls, "Meta", None)
    load = getattr(meta, "key_transform_with_load", None) if meta else None
    dump = getattr(meta, "key_transform_with_dump", None) if meta else None
    return (load or {}), (dump or {})


def build_value(t, j, depth=0):
    """construct a python value of annotation `t` from JSON value `j` (harness-side, boring)"""
    if isinstance(j, dict) and set(j) == {"$bytes"}:
        return base64.b64decode(j["$bytes"])
    if isinstance(j, dict) and set(j) == {"$file"}:
        return io.BytesIO(base64.b64decode(j["$file"]))
    if isinstance(j, dict) and set(j) == {"$files"}:
        return {k: io.BytesIO(base64.b64decode(v)) for k, v in j["$files"].items()}
    if t is typing.Any or t is None or t is inspect.Parameter.empty or isinstance(t, str):
        return j
    alts, _ = strip_optional(t)
    if j is None:
        return None
    if len(alts) > 1:
        last = None
        for a in alts:
            try:
                v = build_value(a, j, depth + 1)
                if conforms(v, a):
                    return v
            except Exception as e:  # noqa
                last = e
        if last:
            raise last
        return j
    t = alts[0]
    origin = typing.get_origin(t)
    if origin is typing.Annotated:
        return build_value(typing.get_args(t)[0], j, depth + 1)
    if origin in (list, typing.List, set, tuple) or t is list:
        args = typing.get_args(t)
        if isinstance(j, dict) and set(j) == {"$repeat"}:
            # the SAME instance several times in one list (a template object reused by the caller)
            one = build_value(args[0] if args else typing.Any, j["$repeat"][0], depth + 1)
            return [one] * int(j["$repeat"][1])
        return [build_value(args[0] if args else typing.Any, x, depth + 1) for x in j]
    if origin in (dict, typing.Dict) or t is dict:
        args = typing.get_args(t)
        vt = args[1] if len(args) == 2 else typing.Any
        return {k: build_value(vt, v, depth + 1) for k, v in j.items()}
    if origin is typing.Literal:
        return j
    if inspect.isclass(t):
        if issubclass(t, enum.Enum):
            return t(j)
        if t is datetime.datetime:
            return datetime.datetime.fromisoformat(j.replace("Z", "+00:00")) if isinstance(j, str) else j
        if t is datetime.date:
            return datetime.date.fromisoformat(j) if isinstance(j, str) else j
        if t is datetime.time:
            return datetime.time.fromisoformat(j) if isinstance(j, str) else j
        if t is uuid.UUID:
            return uuid.UUID(j) if isinstance(j, str) else j
        if t is bytes:
            return j.encode() if isinstance(j, str) else j
        if dataclasses.is_dataclass(t):
            if not isinstance(j, dict):
                raise TypeError(f"cannot build {t.__name__} from {type(j).__name__}")
            fields = {f.name: f for f in dataclasses.fields(t)}
            if list(fields) == ["_data"]:
                hints = hints_of(t)
                return t(_data=build_value(hints.get("_data", dict), j, depth + 1))
            load, _ = wire_maps(t)
            hints = hints_of(t)
            kw = {}
            for k, v in j.items():
                py = load.get(k, k)
                if py in fields:
                    kw[py] = build_value(hints.get(py, typing.Any), v, depth + 1)
            return t(**kw)
        if t in (int, float, str, bool):
            return j
    return j


def conforms(v, t):
    """is python value v an instance of annotation t (structurally)?"""
    if t is typing.Any or t is inspect.Parameter.empty or isinstance(t, str):
        return True
    if t is None or t is type(None):
        return v is None
    alts, opt = strip_optional(t)
    if v is None:
        return opt or type(None) in typing.get_args(t)
    if len(alts) > 1:
        return any(conforms(v, a) for a in alts)
    t = alts[0]
    origin = typing.get_origin(t)
    if origin is typing.Annotated:
        return conforms(v, typing.get_args(t)[0])
    if origin in (list, typing.List) or t is list:
        args = typing.get_args(t)
        return isinstance(v, list) and all(conforms(x, args[0] if args else typing.Any) for x in v)
    if origin in (dict, typing.Dict) or t is dict:
        args = typing.get_args(t)
        return isinstance(v, dict) and all(conforms(x, args[1] if len(args) == 2 else typing.Any) for x in v.values())
    if origin is typing.Literal:
        return v in typing.get_args(t)
    if origin is not None:
        try:
            return isinstance(v, origin)
        except TypeError:
            return True
    if inspect.isclass(t):
        if t is float:
            return isinstance(v, (int, float)) and not isinstance(v, bool)
        if t is int:
            return isinstance(v, int) and not isinstance(v, bool)
        try:
            return isinstance(v, t)
        except TypeError:
            return True
    return True


def to_json(v, depth=0):
    """python value -> JSON by wire keys (harness-side; not the package's converter)"""
    if depth > 30:
        return "<deep>"
    if v is None or isinstance(v, (bool, int, float, str)):
        return v
    if isinstance(v, enum.Enum):
        return v.value
    if isinstance(v, (datetime.datetime, datetime.date, datetime.time)):
        return {"$iso": v.isoformat(), "$type": type(v).__name__}
    if isinstance(v, uuid.UUID):
        return {"$iso": str(v), "$type": "UUID"}
    if isinstance(v, (bytes, bytearray)):
        return {"$bytes": base64.b64encode(bytes(v)).decode()}
    if isinstance(v, (list, tuple)):
        return [to_json(x, depth + 1) for x in v]
    if isinstance(v, dict):
        return {str(k): to_json(x, depth + 1) for k, x in v.items()}
    if dataclasses.is_dataclass(v) and not isinstance(v, type):
        fields = dataclasses.fields(v)
        if [f.name for f in fields] == ["_data"]:
            return to_json(v._data, depth + 1)
        _, dump = wire_maps(type(v))
        return {dump.get(f.name, f.name): to_json(getattr(v, f.name), depth + 1) for f in fields}
    return {"$repr": repr(v)[:200], "$type": type(v).__name__}


def type_name(v):
    return type(v).__name__


def synth(t, depth=0, variant=0):
    """a plausible value of annotation t (used to call methods whose arguments do not matter)"""
    if t is typing.Any or t is inspect.Parameter.empty or isinstance(t, str) or t is None:
        return "x"
    alts, opt = strip_optional(t)
    t = alts[0]
    origin = typing.get_origin(t)
    if origin is typing.Annotated:
        return synth(typing.get_args(t)[0], depth + 1)
    if origin in (list, typing.List) or t is list:
        args = typing.get_args(t)
        return [synth(args[0], depth + 1)] if args and depth < 4 else []
    if origin in (dict, typing.Dict) or t is dict:
        args = typing.get_args(t)
        if len(args) == 2 and depth < 4:
            if "IO" in str(args[1]):
                return {"file": io.BytesIO(b"data")}
            return {"k": synth(args[1], depth + 1)}
        return {}
    if origin is typing.Literal:
        return typing.get_args(t)[0]
    if inspect.isclass(t):
        if issubclass(t, enum.Enum):
            return list(t)[0]
        if t is bool:
            return True
        if t is int:
            return 1
        if t is float:
            return 1.5
        if t is str:
            return "x"
        if t is bytes:
            return b"x"
        if t is datetime.datetime:
            return datetime.datetime(2020, 1, 2, 3, 4, 5, tzinfo=datetime.timezone.utc)
        if t is datetime.date:
            return datetime.date(2020, 1, 2)
        if t is datetime.time:
            return datetime.time(3, 4, 5)
        if t is uuid.UUID:
            return uuid.UUID("123e4567-e89b-12d3-a456-426614174000")
        if dataclasses.is_dataclass(t):
            if depth > 4:
                return None
            hints = hints_of(t)
            kw = {}
            for f in dataclasses.fields(t):
                if f.default is dataclasses.MISSING and f.default_factory is dataclasses.MISSING:
                    kw[f.name] = synth(hints.get(f.name, typing.Any), depth + 1)
            try:
                return t(**kw)
            except Exception:
                return None
    return "x"


# ----------------------------------------------------------------------------------------------
# running generated clients against a scripted in-memory server
# ----------------------------------------------------------------------------------------------
_LOOP = None


def run(coro):
    global _LOOP
    if _LOOP is None:
        _LOOP = asyncio.new_event_loop()
        asyncio.set_event_loop(_LOOP)
    return _LOOP.run_until_complete(coro)


class Server:
    """httpx.MockTransport handler that records every request and answers with a scripted response"""

    def __init__(self):
        self.requests = []
        self.script = {"status": 200, "headers": {}, "body": b""}

    def set(self, status=200, headers=None, body=b"", chunks=None):
        self.script = {"status": status, "headers": dict(headers or {}), "body": body, "chunks": chunks}

    def handler(self, request):
        import httpx

        try:
            content = request.read()
        except Exception:
            content = b""
        self.requests.append({
            "method": request.method,
            "path": request.url.raw_path.decode("ascii", "replace").split("?")[0],
            "query": [[k, v] for k, v in request.url.params.multi_items()],
            "raw_query": request.url.query.decode("ascii", "replace"),
            "headers": [[k, v] for k, v in request.headers.multi_items()],
            "body_b64": base64.b64encode(content).decode(),
        })
        s = self.script
        if s.get("chunks") is not None:
            chunks = s["chunks"]

            class BS(httpx.AsyncByteStream):
                async def __aiter__(self_inner):
                    for c in chunks:
                        yield c

            return httpx.Response(s["status"], headers=s["headers"], stream=BS())
        return httpx.Response(s["status"], headers=s["headers"], content=s["body"])


def install_mock(server):
    """every httpx.AsyncClient constructed from now on talks to `server` (no private attribute of the bundled
    transport is touched)"""
    import httpx

    real = httpx.AsyncClient
    mock = httpx.MockTransport(server.handler)

    class PatchedAsyncClient(real):
        def __init__(self, *a, **kw):
            kw["transport"] = mock
            super().__init__(*a, **kw)

    httpx.AsyncClient = PatchedAsyncClient
    return real


def make_client(package, core_package, server, transport_kind="bundled", base_url="http://h.test/api", transport_kwargs=None):
    client_mod = importlib.import_module(package + ".client")
    cfg_mod = importlib.import_module(core_package + ".config")
    ht = importlib.import_module(core_package + ".http_transport")
    install_mock(server)
    cfg = cfg_mod.ClientConfig(base_url=base_url)
    if transport_kind == "bundled":
        tr = ht.HttpxTransport(base_url, **(transport_kwargs or {}))
    elif transport_kind == "default":
        tr = None
    else:
        import httpx

        class PassThrough:
            """a custom transport that returns every response unraised (6 lines)"""

            def __init__(self):
                self.c = httpx.AsyncClient(base_url=base_url)

            async def request(self, method, url, **kw):
                return await self.c.request(method, url, **kw)

            async def close(self):
                await self.c.aclose()

        tr = PassThrough()
    return client_mod.APIClient(cfg, transport=tr) if tr is not None else client_mod.APIClient(cfg)


def exc_info(e, core_package):
    info = {"type": type(e).__name__, "mro": [c.__name__ for c in type(e).__mro__], "msg": str(e)[:300]}
    try:
        exc_mod = importlib.import_module(core_package + ".exceptions")
        info["is_HTTPError"] = isinstance(e, exc_mod.HTTPError)
        info["is_ClientError"] = isinstance(e, exc_mod.ClientError)
        info["is_ServerError"] = isinstance(e, exc_mod.ServerError)
    except Exception as x:  # noqa
        info["exc_mod_error"] = str(x)
    sc = getattr(e, "status_code", None)
    info["status_code"] = sc if isinstance(sc, int) else None
    resp = getattr(e, "response", None)
    info["response_status"] = getattr(resp, "status_code", None) if resp is not None else None
    return info


def call_method(meth, kwargs, iterate_limit=50):
    """call a generated method; returns {"kind": "return"/"items"/"raise", ...} with harness-side JSON of the value"""
    try:
        if inspect.isasyncgenfunction(meth):
            async def collect():
                out = []
                async for it in meth(**kwargs):
                    out.append(it)
                    if len(out) > iterate_limit:
                        break
                return out

            items = run(collect())
            return {"kind": "items", "values": items}
        res = meth(**kwargs)
        if inspect.isawaitable(res):
            res = run(res)
        elif hasattr(res, "__aiter__"):
            async def collect2():
                out = []
                async for it in res:
                    out.append(it)
                    if len(out) > iterate_limit:
                        break
                return out

            return {"kind": "items", "values": run(collect2())}
        return {"kind": "return", "value": res}
    except BaseException as e:  # noqa
        if isinstance(e, (KeyboardInterrupt, SystemExit, TimeoutError)):
            raise
        return {"kind": "raise", "exc": e}


def public_methods(obj):
    """(name, function) of the operation methods of a tag client instance/class"""
    out = []
    cls = obj if inspect.isclass(obj) else type(obj)
    for name, member in inspect.getmembers(cls):
        if name.startswith("__"):
            continue
        if inspect.isfunction(member) and (inspect.iscoroutinefunction(member) or inspect.isasyncgenfunction(member)
                                           or "AsyncIterator" in str(hints_of(member).get("return", ""))):
            out.append((name, member))
    return out
