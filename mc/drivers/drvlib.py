"""Helpers shared by drivers that run inside the runtime-only interpreter (stdlib + httpx + cattrs only)."""
import importlib
import os
import re
import sys


def modules_under(root, package):
    """dotted names of every .py module under root/<package as path>, packages first"""
    base = os.path.join(root, *package.split("."))
    out = []
    for dp, dn, fn in os.walk(base):
        dn.sort()
        if "__pycache__" in dp:
            continue
        rel = os.path.relpath(dp, root)
        pkg = rel.replace(os.sep, ".")
        if "__init__.py" in fn:
            out.append(pkg)
        for f in sorted(fn):
            if f.endswith(".py") and f != "__init__.py":
                out.append(pkg + "." + f[:-3])
    return out


def norm_exc(e):
    """exception normalised for signatures: identifiers in quotes, paths and numbers abstracted"""
    msg = str(e)
    msg = re.sub(r"'[^']*'", "'*'", msg)
    msg = re.sub(r'"[^"]*"', '"*"', msg)
    msg = re.sub(r"\(?/[\w/.\-]+\)?", "<path>", msg)
    msg = re.sub(r"\d+", "N", msg)
    return f"{type(e).__name__}: {msg[:160]}"


def try_import(name):
    try:
        return importlib.import_module(name), None
    except BaseException as e:  # noqa
        if isinstance(e, (KeyboardInterrupt, SystemExit, TimeoutError)):
            raise
        return None, e
