"""C01/C12 driver: import every module of the emitted package(s); resolve every __all__ name."""
import os
import sys
import traceback

import drvlib


def origin_of(err, root):
    """file (relative to root) in which the failure originates: SyntaxError.filename, else innermost traceback frame under root"""
    if isinstance(err, SyntaxError) and err.filename:
        fn = err.filename
        return os.path.relpath(fn, root) if fn.startswith(root) else fn
    last = None
    for fs in traceback.extract_tb(err.__traceback__):
        if fs.filename.startswith(root):
            last = fs.filename
    return os.path.relpath(last, root) if last else None


def run(args):
    root = args["root"]
    failures = []
    modules = []
    for pkg in args["packages"]:
        for name in drvlib.modules_under(root, pkg):
            mod, err = drvlib.try_import(name)
            modules.append(name)
            if err is not None:
                failures.append({"module": name, "kind": "import", "error": drvlib.norm_exc(err), "origin": origin_of(err, root),
                                 "raw": f"{type(err).__name__}: {err}"[:500]})
                continue
            names = getattr(mod, "__all__", None)
            if names is not None:
                for n in names:
                    if not isinstance(n, str) or not hasattr(mod, n):
                        failures.append({"module": name, "kind": "all", "error": "__all__ name does not resolve", "origin": None,
                                         "raw": f"{name}.__all__ lists {n!r} which is not an attribute"})
    try:
        import pyopenapi_gen  # noqa: F401

        gen = True
    except ImportError:
        gen = False
    return {"modules": modules, "failures": failures, "generator_importable": gen}
