"""C01/C12 driver: import every module of the emitted package(s); resolve every __all__ name."""
import sys

import drvlib


def run(args):
    root = args["root"]
    failures = []
    modules = []
    for pkg in args["packages"]:
        for name in drvlib.modules_under(root, pkg):
            mod, err = drvlib.try_import(name)
            modules.append(name)
            if err is not None:
                failures.append({"module": name, "kind": "import", "error": drvlib.norm_exc(err), "raw": f"{type(err).__name__}: {err}"[:500]})
                continue
            names = getattr(mod, "__all__", None)
            if names is not None:
                for n in names:
                    if not isinstance(n, str) or not hasattr(mod, n):
                        failures.append({"module": name, "kind": "all", "error": f"__all__ name does not resolve",
                                         "raw": f"{name}.__all__ lists {n!r} which is not an attribute"})
    try:
        import pyopenapi_gen  # noqa: F401

        gen = True
    except ImportError:
        gen = False
    foreign = sorted({m.split(".")[0] for m in sys.modules} - set(args.get("baseline_modules", [])))
    return {"modules": modules, "failures": failures, "generator_importable": gen}
