"""C07 driver: behavioural reachability. Every public async method of every tag client reachable from APIClient is called with
synthesised arguments against an in-memory server; the (HTTP method, path) it hits is reported. Names are not trusted."""
import importlib
import inspect
import keyword

import drvlib


def run(args):
    pkg, core = args["package"], args["core"]
    out = {"clients": {}, "errors": []}
    try:
        server = drvlib.Server()
        client = drvlib.make_client(pkg, core, server, "bundled")
    except BaseException as e:  # noqa
        if isinstance(e, (KeyboardInterrupt, SystemExit, TimeoutError)):
            raise
        out["errors"].append({"stage": "make_client", "error": drvlib.norm_exc(e), "raw": f"{type(e).__name__}: {e}"[:400]})
        return out
    cls = type(client)
    props = [n for n, m in inspect.getmembers(cls) if isinstance(m, property) and not n.startswith("_")]
    out["props"] = props
    for pn in props:
        try:
            tc = getattr(client, pn)
        except BaseException as e:  # noqa
            out["errors"].append({"stage": "property " + pn, "error": drvlib.norm_exc(e), "raw": str(e)[:300]})
            continue
        info = {"class": type(tc).__name__, "methods": {}}
        for name, fn in drvlib.public_methods(tc):
            hints = drvlib.hints_of(fn)
            sig = inspect.signature(fn)
            kwargs = {}
            for p in sig.parameters.values():
                if p.name == "self" or p.kind in (p.VAR_POSITIONAL, p.VAR_KEYWORD):
                    continue
                if p.default is not inspect.Parameter.empty and args.get("required_only", True):
                    continue
                kwargs[p.name] = drvlib.synth(hints.get(p.name, p.annotation))
            server.requests.clear()
            server.set(200, {"content-type": "application/json"}, b"null")
            res = drvlib.call_method(getattr(tc, name), kwargs)
            if res["kind"] == "raise" and not server.requests:
                # e.g. an overloaded multi-content operation needs one of its optional body arguments: retry with every argument
                kw2 = {}
                for p in sig.parameters.values():
                    if p.name == "self" or p.kind in (p.VAR_POSITIONAL, p.VAR_KEYWORD) or p.name == "content_type":
                        continue
                    kw2[p.name] = drvlib.synth(hints.get(p.name, p.annotation))
                for drop in ([], ["files", "data", "form_data"], ["body"]):
                    kw3 = {k: v for k, v in kw2.items() if k not in drop}
                    server.requests.clear()
                    res = drvlib.call_method(getattr(tc, name), kw3)
                    if server.requests:
                        break
            m = {"hits": [[r["method"], r["path"]] for r in server.requests],
                 "valid_identifier": name.isidentifier() and not keyword.iskeyword(name),
                 "nature": "asyncgen" if inspect.isasyncgenfunction(fn) else ("coroutine" if inspect.iscoroutinefunction(fn) else "other")}
            if res["kind"] == "raise" and not server.requests:
                m["error"] = drvlib.norm_exc(res["exc"])
                m["raw"] = f"{type(res['exc']).__name__}: {res['exc']}"[:300]
            info["methods"][name] = m
        out["clients"][pn] = info
    return out
