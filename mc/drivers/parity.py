"""C13 driver: introspective parity between every tag client class, its Protocol and its mock."""
import importlib
import inspect

import drvlib


def sig_desc(fn):
    """signature as comparable data: (name, kind, default repr, annotation text) per parameter + return annotation text"""
    try:
        s = inspect.signature(fn)
    except (TypeError, ValueError) as e:
        return {"error": str(e)}
    ann = getattr(fn, "__annotations__", {})

    def txt(a):
        if a is inspect.Parameter.empty:
            return None
        return a if isinstance(a, str) else getattr(a, "__name__", None) and (a.__module__ == "builtins") and a.__name__ or str(a).replace("typing.", "")

    params = []
    for p in s.parameters.values():
        params.append([p.name, p.kind.name, None if p.default is inspect.Parameter.empty else repr(p.default), txt(ann.get(p.name, p.annotation))])
    return {"params": params, "return": txt(ann.get("return", s.return_annotation))}


def nature(fn):
    if inspect.isasyncgenfunction(fn):
        return "async-iterator"
    if inspect.iscoroutinefunction(fn):
        return "coroutine"
    r = str(getattr(fn, "__annotations__", {}).get("return", ""))
    if "AsyncIterator" in r or "AsyncGenerator" in r:
        return "async-iterator"
    return "plain"


def own_functions(cls):
    out = {}
    for klass in reversed(cls.__mro__):
        if klass is object or klass.__module__ in ("typing", "builtins"):
            continue
        for name, m in vars(klass).items():
            if name.startswith("__") or not inspect.isfunction(m):
                continue
            out[name] = m
    return out


def run(args):
    pkg, core = args["package"], args["core"]
    out = {"tags": {}, "errors": []}
    try:
        server = drvlib.Server()
        client = drvlib.make_client(pkg, core, server, "bundled")
    except BaseException as e:  # noqa
        if isinstance(e, (KeyboardInterrupt, SystemExit, TimeoutError)):
            raise
        out["errors"].append({"stage": "client", "error": drvlib.norm_exc(e), "raw": f"{type(e).__name__}: {e}"[:400]})
        return out
    props = [n for n, m in inspect.getmembers(type(client)) if isinstance(m, property) and not n.startswith("_")]
    out["api_props"] = sorted(props)
    mock_api = None
    try:
        mocks = importlib.import_module(pkg + ".mocks")
        mock_api = mocks.MockAPIClient()
        out["mock_api_props"] = sorted(n for n, m in inspect.getmembers(type(mock_api)) if isinstance(m, property) and not n.startswith("_"))
    except BaseException as e:  # noqa
        if isinstance(e, (KeyboardInterrupt, SystemExit, TimeoutError)):
            raise
        out["errors"].append({"stage": "mocks", "error": drvlib.norm_exc(e), "raw": f"{type(e).__name__}: {e}"[:400]})
        mocks = None
    for pn in props:
        try:
            tc = getattr(client, pn)
        except BaseException as e:  # noqa
            out["errors"].append({"stage": "property " + pn, "error": drvlib.norm_exc(e), "raw": str(e)[:300]})
            continue
        ccls = type(tc)
        mod = importlib.import_module(ccls.__module__)
        proto = getattr(mod, ccls.__name__ + "Protocol", None)
        t = {"class": ccls.__name__, "has_protocol": proto is not None}
        cm = {n: f for n, f in own_functions(ccls).items() if not n.startswith("_") or n in own_functions(proto or object)}
        cm = {n: f for n, f in cm.items() if nature(f) != "plain"}
        t["client"] = {n: {"sig": sig_desc(f), "nature": nature(f)} for n, f in cm.items()}
        if proto is not None:
            pm = {n: f for n, f in vars(proto).items() if inspect.isfunction(f) and not n.startswith("__")}
            t["protocol"] = {n: {"sig": sig_desc(f), "nature": nature(f)} for n, f in pm.items()}
            try:
                t["client_isinstance_protocol"] = isinstance(tc, proto)
            except Exception as e:  # noqa
                t["client_isinstance_protocol"] = f"error: {e}"
        mock_inst = None
        if mock_api is not None:
            try:
                mock_inst = getattr(mock_api, pn)
            except BaseException as e:  # noqa
                t["mock_error"] = drvlib.norm_exc(e)
        if mock_inst is not None:
            mcls = type(mock_inst)
            t["mock_class"] = mcls.__name__
            mm = {n: f for n, f in own_functions(mcls).items() if nature(f) != "plain"}
            t["mock"] = {}
            for n, f in mm.items():
                d = {"sig": sig_desc(f), "nature": nature(f)}
                hints = drvlib.hints_of(f)
                kwargs = {}
                for p in inspect.signature(f).parameters.values():
                    if p.name == "self" or p.default is not inspect.Parameter.empty or p.kind in (p.VAR_POSITIONAL, p.VAR_KEYWORD):
                        continue
                    kwargs[p.name] = drvlib.synth(hints.get(p.name, p.annotation))
                res = drvlib.call_method(getattr(mock_inst, n), kwargs)
                if res["kind"] == "raise":
                    d["raises"] = type(res["exc"]).__name__
                else:
                    d["raises"] = None
                t["mock"][n] = d
            if proto is not None:
                try:
                    t["mock_isinstance_protocol"] = isinstance(mock_inst, proto)
                except Exception as e:  # noqa
                    t["mock_isinstance_protocol"] = f"error: {e}"
        out["tags"][pn] = t
    return out
