"""Entry point: python -m mc.run Cxx [--tier quick|thorough] [--replay FILE]"""
import argparse
import importlib
import os
import sys


def main():
    ap = argparse.ArgumentParser()
    ap.add_argument("pid")
    ap.add_argument("--tier", default=os.environ.get("VERIF_TIER", "quick"), choices=["quick", "thorough"])
    ap.add_argument("--replay", default=None)
    a = ap.parse_args()
    try:
        seed = int(os.environ.get("VERIF_SEED", "0"))
    except ValueError:
        seed = 0
    from mc import kernel

    mod = importlib.import_module("mc.props." + a.pid.lower())
    rc = kernel.main_check(mod, a.tier, seed, a.replay)
    sys.stdout.flush()
    sys.exit(rc)


if __name__ == "__main__":
    main()
