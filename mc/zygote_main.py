"""Runtime-only interpreter ("zygote").

Started as `/venv/bin/python -I zygote_main.py`. Imports only the documented runtime dependencies of a
generated client (httpx, cattrs), then blocks every other non-stdlib top-level module (the generator
itself, yaml, black, dataclass_wizard, typer ...) and serves jobs: one fork per job, the child puts the
scratch project root on sys.path, loads a driver from mc/drivers and prints its JSON verdict.

With --one-shot the single job read from stdin is run in this very (fresh) process; the self-tests use
that to validate that a forked child behaves like a fresh interpreter.
"""
import importlib.abc
import importlib.util
import json
import os
import signal
import sys
import traceback

HERE = os.path.dirname(os.path.abspath(__file__))
DRIVERS = os.path.join(HERE, "drivers")

import asyncio  # noqa: E402  (pre-warm)
import dataclasses  # noqa: E402,F401
import datetime  # noqa: E402,F401
import enum  # noqa: E402,F401
import inspect  # noqa: E402,F401
import typing  # noqa: E402,F401
import uuid  # noqa: E402,F401
import base64  # noqa: E402,F401
import collections.abc  # noqa: E402,F401

import httpx  # noqa: E402
import cattrs  # noqa: E402,F401
import cattrs.gen  # noqa: E402,F401
import cattrs.errors  # noqa: E402,F401
import cattrs.preconf.json  # noqa: E402,F401

try:  # whatever httpx needs lazily on first request
    import anyio._backends._asyncio  # noqa: F401
except Exception:
    pass

ALLOWED = set(sys.stdlib_module_names) | {m.split(".")[0] for m in sys.modules}
ALLOWED.discard("pyopenapi_gen")
JOB_ALLOWED = set()


class Blocker(importlib.abc.MetaPathFinder):
    def find_spec(self, name, path=None, target=None):
        top = name.split(".")[0]
        if top in ALLOWED or top in JOB_ALLOWED:
            return None
        raise ModuleNotFoundError(f"No module named {name!r} (blocked: not a runtime dependency of generated clients)",
                                  name=name)


sys.meta_path.insert(0, Blocker())
assert "pyopenapi_gen" not in sys.modules

# the generator is not INSTALLED here either: distribution metadata is visible only for the runtime dependencies and what they pulled in
import importlib.metadata as _md  # noqa: E402

_RUNTIME_DISTS = {"httpx", "httpcore", "h11", "anyio", "sniffio", "idna", "certifi", "cattrs", "attrs", "typing-extensions", "typing_extensions", "exceptiongroup"}
_real_from_name = _md.Distribution.from_name.__func__
_real_discover = _md.Distribution.discover.__func__


def _norm(n):
    return str(n).lower().replace("_", "-")


def _from_name(cls, name):
    if _norm(name) not in {_norm(x) for x in _RUNTIME_DISTS}:
        raise _md.PackageNotFoundError(name)
    return _real_from_name(cls, name)


def _discover(cls, **kwargs):
    for d in _real_discover(cls, **kwargs):
        try:
            if _norm(d.metadata["Name"]) in {_norm(x) for x in _RUNTIME_DISTS}:
                yield d
        except Exception:
            continue


_md.Distribution.from_name = classmethod(_from_name)
_md.Distribution.discover = classmethod(_discover)


def load_driver(name):
    path = os.path.join(DRIVERS, name + ".py")
    spec = importlib.util.spec_from_file_location("_verif_driver_" + name, path)
    mod = importlib.util.module_from_spec(spec)
    sys.modules[spec.name] = mod
    spec.loader.exec_module(mod)
    return mod


JOB_ALLOWED.add("_verif_driver_common")


def run_job(job):
    for r in reversed(job.get("roots", [])):
        sys.path.insert(0, r)
    for a in job.get("allow", []):
        JOB_ALLOWED.add(a)
    sys.path.insert(0, DRIVERS)
    JOB_ALLOWED.add("drvlib")
    drv = load_driver(job["driver"])
    return drv.run(job.get("args", {}))


def _alarm(sig, frm):
    raise TimeoutError("zygote job timeout")


def child(job, wfd):
    out = None
    try:
        signal.signal(signal.SIGALRM, _alarm)
        signal.alarm(int(job.get("timeout", 60)))
        res = run_job(job)
        signal.alarm(0)
        out = json.dumps(res, default=str)
    except BaseException as e:  # noqa
        out = json.dumps({"_crash": f"{type(e).__name__}: {e}", "_tb": traceback.format_exc()[-3000:]})
    try:
        with os.fdopen(wfd, "w") as w:
            w.write(out)
    finally:
        os._exit(0)


def serve():
    sys.stdout.write("READY\n")
    sys.stdout.flush()
    devnull = os.open(os.devnull, os.O_WRONLY)
    for line in sys.stdin:
        line = line.strip()
        if not line:
            continue
        job = json.loads(line)
        rfd, wfd = os.pipe()
        pid = os.fork()
        if pid == 0:
            os.close(rfd)
            # generated code / drivers must not write on the protocol channel
            os.dup2(devnull, 1)
            os.dup2(devnull, 2)
            child(job, wfd)
        os.close(wfd)
        with os.fdopen(rfd, "r") as r:
            data = r.read()
        _, status = os.waitpid(pid, 0)
        if not data:
            data = json.dumps({"_crash": f"child exited without verdict (status {status})"})
        sys.stdout.write(data.replace("\n", " ") + "\n")
        sys.stdout.flush()


def one_shot():
    job = json.loads(sys.stdin.readline())
    real = sys.stdout
    sys.stdout = open(os.devnull, "w")
    try:
        signal.signal(signal.SIGALRM, _alarm)
        signal.alarm(int(job.get("timeout", 60)))
        res = run_job(job)
        out = json.dumps(res, default=str)
    except BaseException as e:  # noqa
        out = json.dumps({"_crash": f"{type(e).__name__}: {e}", "_tb": traceback.format_exc()[-3000:]})
    real.write(out.replace("\n", " ") + "\n")
    real.flush()


if __name__ == "__main__":
    if "--one-shot" in sys.argv:
        one_shot()
    else:
        serve()
