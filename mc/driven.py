"""Shared machinery for the checks that drive generated clients (C04, C05, C06): pack operations into one document, generate,
run the `drive` driver in the runtime-only interpreter, bisect when the package does not import."""
from __future__ import annotations

import os

from . import sandbox
from .kernel import HarnessError
from .space import ops


def drive_pack(cases, make_calls, transport="bundled", stats=None, naming="operationId", refs=False, transport_kwargs=None):
    """cases: op cases; make_calls(case) -> [call spec without prop/method/id]
    returns list aligned with cases: {"status": "ok"|"rejected"|"unimportable", "records": [...], "error": str}"""
    stats = stats if stats is not None else {}
    stats["generations"] = stats.get("generations", 0) + 1
    doc, meta = ops.build_doc(cases, refs=refs)
    with sandbox.scratch() as d:
        root = os.path.join(d, "proj")
        files, err = sandbox.generate(doc, root, naming=naming)
        if err is not None:
            if len(cases) == 1:
                return [{"status": "rejected", "records": [], "error": f"{type(err).__name__}: {err}"[:300]}]
            mid = len(cases) // 2
            return drive_pack(cases[:mid], make_calls, transport, stats, naming, refs, transport_kwargs) + drive_pack(cases[mid:], make_calls, transport, stats, naming, refs, transport_kwargs)
        calls = []
        for i, c in enumerate(cases):
            for j, spec in enumerate(make_calls(c)):
                s = dict(spec)
                s["id"] = [i, j]
                s["prop"] = ops.tag_name(i) + ("zz" if s.pop("via_second_tag", False) else "")   # operations with "two_tags" are reachable under both
                s["method"] = f"op{i}"
                calls.append(s)
        res = sandbox.zygote_job({"roots": [root], "allow": ["cli"], "driver": "drive",
                                  "args": {"package": "cli", "core": "cli.core", "transport": transport, "transport_kwargs": transport_kwargs, "calls": calls}}, timeout_s=100)
    if "_crash" in res:
        raise HarnessError("drive driver crashed: " + res["_crash"] + res.get("_tb", ""))
    if any(e["stage"] == "make_client" for e in res["errors"]):
        if len(cases) == 1:
            return [{"status": "unimportable", "records": [], "error": res["errors"][0]["raw"]}]
        mid = len(cases) // 2
        return drive_pack(cases[:mid], make_calls, transport, stats, naming, refs, transport_kwargs) + drive_pack(cases[mid:], make_calls, transport, stats, naming, refs, transport_kwargs)
    out = [{"status": "ok", "records": []} for _ in cases]
    for rec in res["calls"]:
        i, j = rec["id"]
        out[i]["records"].append(rec)
    return out
