"""C18 - stream decoders are independent of how the bytes are chunked (schedule enumeration).

A *schedule* is a way the network splits a byte stream into chunks = a subset of the n-1 split points
(plus, as a deviation, an empty chunk). For every stream built from <=3 records of a small record alphabet
the real decoders (iter_sse, iter_sse_events_text, iter_ndjson, iter_bytes) are run over an httpx.Response
whose body is an async iterator delivering exactly those chunks:
  * n <= FULL bytes: every one of the 2^(n-1) chunkings;
  * longer streams: every chunking with <= S split points;
  * every single-split chunking additionally with an empty chunk before / at / after the split.
Oracle: items(chunking) == items(unsplit) (differential) and items(unsplit) == boring reference parser.
"""
from __future__ import annotations

import asyncio
import itertools
import json
import re

from ..kernel import HarnessError

PID = "C18"
USES_GENERATOR = False
LEVEL = "model_checking"
RULE = ("streams = all sequences of <=3 records over the record alphabet (unterminated record only last; quick: singles and pairs over the whole alphabet of 14 SSE / 8 NDJSON "
        "records, triples over a core of 8 / 6); schedules = all "
        "subsets of split points for short streams, all subsets with <=S points for longer ones, plus empty-chunk deviations; "
        "non-trivial = distinct (decoder, stream, chunking) with at least one split point")
ASSUMPTIONS = [
    "chunks are delivered through httpx.Response(stream=AsyncByteStream); httpx's own text/line decoding is part of the subject",
    "for iter_bytes only the concatenation is compared (chunk boundaries are the input there, not an output)",
    "a block consisting only of comment lines may or may not produce an (empty) event: the statement does not say; the reference accepts both",
]
BOUND = {"quick": "<=2 records over the whole alphabet (18 SSE / 15 NDJSON records), 3 records over the core (10 / 6); all chunkings for n<=13 bytes; <=2 split points otherwise; 1 empty-chunk deviation",
         "thorough": "<=3 records; all chunkings for n<=17 bytes; <=3 split points otherwise; 1 empty-chunk deviation"}

SSE_RECORDS = {
    "A": b"data: a\n\n",
    "B": b"data: b\r\n\r\n",
    "C": b"data: c\ndata: d\n\n",
    "D": b": k\ndata: e\n\n",
    "E": b"data:\n\n",
    "F": b"event: x\nid: 7\ndata: f\n\n",
    "G": "data: é名\n\n".encode(),
    "I": b"data: i\r\r",
    "J": b"retry: 5\ndata: j\n\n",
    "K": b"data: k\r\ndata: l\r\n\r\n",  # CRLF between the lines of one event
    "N": b"data:n\nid:8\n\n",  # no space after the colon (legal SSE framing)
    "P": b"data:\ndata: p\n\n",  # first data line empty: the payload starts with a newline
    "Q": "data: q\ufeffr\n\n".encode(),  # U+FEFF inside a payload (only a BOM at the very start of a stream is not data)
    "R": b"event: ping\n\n",                  # a block without data (heartbeat): whatever it yields, it must not leak into the next event
    "S": b"retry: 3000\nid: 9\n\n",
    "T": b"data: t1\n: note\ndata: t2\n\n",  # a comment line in the middle of a block is not an event boundary
    "U": b"event: u\n: note\ndata: v\n\n",
    "H": b"data: z",  # final unterminated event (last position only)
}
SSE_CORE = "ABCFIKNRTH"  # quick: triples over these, singles and pairs over the whole alphabet
ND_RECORDS = {
    "a": b'{"a":1}\n',
    "b": '{"b":"é名"}\r\n'.encode(),
    "c": b"[1,2]\n",
    "d": b"\n",
    "e": b'  {"e":2}  \n',
    "f": b'"x"\r',
    "h": '{"h":"x\ufeffy"}\n'.encode(),  # U+FEFF inside a string value
    "i": b"{}\n",          # records that are falsy in Python are records all the same
    "j": b"0\n",
    "k": b"null\n",
    "l": b'""\n',
    "m": b"false\n",
    "n": b" \n",           # keep-alive / padding lines that hold only white space carry no record
    "o": b"\t\r\n",
    "g": b'{"c":{"d":null}}',  # unterminated last record
}
ND_CORE = "abcefg"


def sequences(records, last_only, maxlen, core=None):
    keys = list(records)
    out = []
    for n in range(1, maxlen + 1):
        for t in itertools.product(keys if (core is None or n < 3) else [k for k in keys if k in core], repeat=n):
            if any(k in last_only for k in t[:-1]):
                continue
            out.append("".join(t))
    return out


def cases(tier, seed):
    out = []
    for seq in sequences(SSE_RECORDS, {"H"}, 3, SSE_CORE if tier == "quick" else None):
        out.append({"dec": "sse", "seq": seq})
    for seq in sequences(ND_RECORDS, {"g"}, 3, ND_CORE if tier == "quick" else None):
        out.append({"dec": "ndjson", "seq": seq})
    for c in out:
        c["tier"] = tier
    return out


# ----------------------------------------------------------------------------------------------
# reference model (boring)
# ----------------------------------------------------------------------------------------------
def ref_lines(text):
    lines = re.split(r"\r\n|\n|\r", text)
    if lines and lines[-1] == "":
        lines.pop()
    return lines


def ref_sse(data: bytes):
    """list of (data, event, id, retry, optional?)"""
    events = []
    block = []

    def flush():
        if not block:
            return
        d, ev, i, rt = [], None, None, None
        anyfield = False
        for ln in block:
            if ln.startswith(":"):
                continue
            if ":" in ln:
                f, v = ln.split(":", 1)
                if v.startswith(" "):
                    v = v[1:]
                if f == "data":
                    d.append(v)
                    anyfield = True
                elif f == "event":
                    ev = v
                    anyfield = True
                elif f == "id":
                    i = v
                    anyfield = True
                elif f == "retry":
                    anyfield = True
                    if v.isdigit():
                        rt = int(v)
        events.append(("\n".join(d), ev, i, rt, not anyfield))
        block.clear()

    for ln in ref_lines(data.decode("utf-8")):
        if ln == "":
            flush()
        else:
            block.append(ln)
    flush()
    return events


def ref_ndjson(data: bytes):
    return [json.loads(ln) for ln in ref_lines(data.decode("utf-8")) if ln.strip()]


# ----------------------------------------------------------------------------------------------
# execution
# ----------------------------------------------------------------------------------------------
_LOOP = {"loop": None}


def loop():
    if _LOOP["loop"] is None:
        _LOOP["loop"] = asyncio.new_event_loop()
    return _LOOP["loop"]


def make_response(chunks):
    import httpx

    class S(httpx.AsyncByteStream):
        async def __aiter__(self):
            for c in chunks:
                yield c

        async def aclose(self):
            return None

    return httpx.Response(200, stream=S())


async def _collect(fn, chunks, conv):
    out = []
    async for it in fn(make_response(chunks)):
        out.append(conv(it))
    return out


def run_decoder(fn, chunks, conv):
    try:
        return loop().run_until_complete(_collect(fn, chunks, conv))
    except Exception as e:
        return ["<raised %s: %s>" % (type(e).__name__, str(e)[:80])]


def split_classes(data, cuts):
    cls = set()
    for p in cuts:
        prev, nxt = data[p - 1:p], data[p:p + 1]
        if prev == b"\r" and nxt == b"\n":
            cls.add("inside-CRLF")
        elif nxt and 0x80 <= nxt[0] <= 0xBF:
            cls.add("inside-multibyte-char")
        elif prev == b"\r":
            cls.add("after-CR")
        elif prev == b"\n":
            cls.add("after-LF")
        else:
            cls.add("inside-line")
    return "+".join(sorted(cls)) or "none"


def chunkings(n, tier):
    """yield tuples of cut positions (sorted)"""
    full = 13 if tier == "quick" else 17
    smax = 2 if tier == "quick" else 3
    pts = list(range(1, n))
    if n <= full:
        for k in range(0, len(pts) + 1):
            for c in itertools.combinations(pts, k):
                yield c
    else:
        for k in range(0, smax + 1):
            for c in itertools.combinations(pts, k):
                yield c


def cut(data, cuts):
    out = []
    a = 0
    for p in cuts:
        out.append(data[a:p])
        a = p
    out.append(data[a:])
    return out


def run_case(case):
    from pyopenapi_gen.core import streaming_helpers as sh

    dec, seq, tier = case["dec"], case["seq"], case.get("tier", "quick")
    if dec == "sse":
        data = b"".join(SSE_RECORDS[k] for k in seq)
        decoders = [
            ("iter_sse", sh.iter_sse, lambda e: [e.data, e.event, e.id, e.retry]),
            ("iter_sse_events_text", sh.iter_sse_events_text, lambda s: s),
            ("iter_bytes", sh.iter_bytes, lambda b: b),
        ]
    else:
        data = b"".join(ND_RECORDS[k] for k in seq)
        decoders = [("iter_ndjson", sh.iter_ndjson, lambda v: v), ("iter_bytes", sh.iter_bytes, lambda b: b)]
    n = len(data)
    findings = {}
    evals = 0
    nontriv = 0
    outcomes = set()
    prefixes = set()
    transitions = 0

    base = {}
    for name, fn, conv in decoders:
        r = run_decoder(fn, [data], conv)
        if name == "iter_bytes":
            r = b"".join(x for x in r if isinstance(x, bytes)) if all(isinstance(x, bytes) for x in r) else r
        base[name] = r
        evals += 1
    # unsplit result vs reference
    if dec == "sse":
        ref = ref_sse(data)
        got = base["iter_sse"]
        want_strict = [[d, e, i, r] for d, e, i, r, opt in ref if not opt]
        want_all = [[d, e, i, r] for d, e, i, r, opt in ref]
        if got != want_strict and got != want_all:
            findings.setdefault("C18|iter_sse|unsplit-differs-from-reference|events",
                                f"stream {data!r}: got {got} want {want_strict}")
        want_text = [d for d, e, i, r, opt in ref if d]
        if base["iter_sse_events_text"] != want_text:
            findings.setdefault("C18|iter_sse_events_text|unsplit-differs-from-reference|data",
                                f"stream {data!r}: got {base['iter_sse_events_text']} want {want_text}")
    else:
        want = ref_ndjson(data)
        if base["iter_ndjson"] != want:
            findings.setdefault("C18|iter_ndjson|unsplit-differs-from-reference|records",
                                f"stream {data!r}: got {base['iter_ndjson']} want {want}")
    if base["iter_bytes"] != data:
        findings.setdefault("C18|iter_bytes|unsplit-differs-from-reference|bytes", f"{base['iter_bytes']!r} != {data!r}")

    def check(chunks, cuts, deviation):
        nonlocal evals, nontriv, transitions
        for name, fn, conv in decoders:
            r = run_decoder(fn, chunks, conv)
            evals += 1
            if name == "iter_bytes":
                if all(isinstance(x, bytes) for x in r):
                    r = b"".join(r)
            if cuts:
                nontriv += 1
            if r != base[name]:
                outcomes.add("differs")
                sig = f"C18|{name}|chunking-dependent|{split_classes(data, cuts)}{'+empty-chunk' if deviation else ''}"
                if sig not in findings:
                    findings[sig] = (f"stream {data!r} chunks {chunks!r}: got {r!r} but unsplit gives {base[name]!r}")
            else:
                outcomes.add("same")
        transitions += len(chunks)
        a = 0
        for c in chunks:
            a += len(c)
            prefixes.add(a)

    for cuts in chunkings(n, tier):
        chunks = cut(data, cuts)
        check(chunks, cuts, False)
        if len(cuts) == 1:
            # deviation: one empty chunk before, at, after the split
            check([b""] + chunks, cuts, True)
            check([chunks[0], b"", chunks[1]], cuts, True)
            check(chunks + [b""], cuts, True)
    return {"findings": [{"sig": k, "msg": v} for k, v in findings.items()],
            "evals": evals, "nontrivial": [f"{dec}:{seq}:{nontriv}"] if nontriv else None,
            "nontrivial_count": nontriv,
            "states": len(prefixes) + 1, "transitions": transitions, "validated": evals,
            "outcome": f"{dec}:" + "+".join(sorted(outcomes)),
            "sample": {"decoder": dec, "records": seq, "bytes": repr(data), "n": n, "executions": evals}}


def finalize(cases, results, tier, seed):
    return {"schedules_with_split": sum(r.get("nontrivial_count", 0) for r in results),
            "distinct_nontrivial": sum(r.get("nontrivial_count", 0) for r in results),
            "streams": len(cases)}
