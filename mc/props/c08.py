"""C08 - parsing cyclic and deep schema graphs terminates with balanced tracker state.

Direct exploration: every graph of the bounded space is loaded through the real loader with
unified_enter_schema / unified_exit_schema wrapped (every tracker transition is observed and the tracker state
after it recorded) and the loader's per-top-level-schema call wrapped (rest state checked after each one), under
several PYOPENAPI_MAX_DEPTH settings; plus chains / nestings deeper than the limit for every edge kind.
"""
from __future__ import annotations

import json
import os
import sys

from .. import sandbox
from ..kernel import HarnessError
from ..space import graphs

PID = "C08"
LEVEL = "model_checking"
RULE = ("graphs G(N,d) as in C02 (every edge kind incl. self loops, 2- and 3-cycles, every declaration order, both name menus) x "
        "PYOPENAPI_MAX_DEPTH in {default,1,2,3}; chains and anonymous nestings of depth {L-1,L,L+1,2L,400} for L in {3,10,150} per edge kind. "
        "Each tracker transition (enter/exit) of the real parser is one transition of the explored state graph; "
        "non-trivial = distinct (graph, limit) cases that contain a reference cycle or exceed the depth limit")
ASSUMPTIONS = [
    "tracker transitions are observed by wrapping pyopenapi_gen.core.parsing.unified_cycle_detection.unified_enter_schema/"
    "unified_exit_schema and the loader's per-schema _parse_schema call (module attributes looked up at call time)",
    "a declared schema whose tracker state is missing, NOT_STARTED or IN_PROGRESS at the end counts as non-terminal",
    "termination is enforced by a per-case watchdog and the default interpreter recursion limit; RecursionError is a violation",
]
BOUND = {"quick": "G(2,1) 9 kinds; G(2,2) 5 kinds; G(3,1) 4 kinds at default limit; G(2,2)/G(3,1)/G(3,2|ref) reduced kinds at L in {1,2,3}; chains up to 400",
         "thorough": "G(2,1), G(2,2) 9 kinds, G(3,1) 9 kinds at default limit; reduced families at L in {1,2,3}; chains up to 400"}

CHUNK = 4
CHAIN_KINDS = ["ref", "arr", "inl", "arrinl", "map", "oneof", "anyof", "allof"]


def finalize(cases, results, tier, seed):
    tl = [r["tlc"] for r in results if r.get("tlc")]
    if tl:
        # the first entry is the configuration of record (prefix-related names, MaxDepth 2); the others vary the depth limit and the name set
        return {"tlc": dict(tl[0], further_configurations=tl[1:],
                            total_states=sum(t["states"] or 0 for t in tl), total_edges=sum(t["edges"] or 0 for t in tl),
                            total_distinct_edges_replayed_on_impl=sum(t["distinct_edges_replayed_on_impl"] or 0 for t in tl)),
                "traces_accepted_by_model_environment": sum(1 for x in results if not x.get("tlc"))}
    return {}


def cases(tier, seed):
    out = []

    def add(gs, L):
        for g in gs:
            c = dict(g)
            c["kind"] = "graph"
            c["L"] = L
            out.append(c)

    add(graphs.graphs(2, 1), None)
    if tier == "quick":
        add(graphs.graphs(2, 2, kinds=["ref", "arr", "inl", "oneof", "allof"], req_flags=(0,)), None)
        add(graphs.graphs(3, 1, kinds=["ref", "arr", "map", "allof"], req_flags=(0,), menus=("prefix",)), None)
    else:
        add(graphs.graphs(2, 2, req_flags=(0,)), None)
        add(graphs.graphs(3, 1, req_flags=(0,)), None)
    for L in ((1, 2) if tier == "quick" else (1, 2, 3)):
        add(graphs.graphs(2, 2, kinds=["ref", "arr", "inl", "allof"], req_flags=(0,), menus=("neutral",)), L)
        add(graphs.graphs(3, 1, kinds=["ref", "arr"] if tier == "quick" else ["ref", "arr", "inl"], req_flags=(0,), menus=("prefix",)), L)
        add(graphs.graphs(3, 2, kinds=["ref"], req_flags=(0,), menus=("neutral",), orders="all" if tier != "quick" else "one"), L)
    for L in (3, 10, 150, None):   # None: the variable is not set, the generator's own default limit applies
        for depth in sorted({(L or 150) - 1, (L or 150), (L or 150) + 1, 2 * (L or 150), 400}):
            for k in CHAIN_KINDS:
                out.append({"kind": "chain", "edge": k, "named": True, "depth": depth, "L": L})
                if k != "ref":
                    out.append({"kind": "chain", "edge": k, "named": False, "depth": depth, "L": L})
    # malformed schema nodes (non-mapping where a schema is expected) in every position the parser recurses into, inside a component
    # schema and inside an operation's inline response / request schema (where parse_operations swallows the error and carries on
    # with the SAME parsing context): whatever happens, the tracker must be at rest when loading ends
    for bad in ("string", 7, ["a"], None, True):
        for pos in ("property", "items", "additionalProperties", "allOf-member", "oneOf-member", "nested-property"):
            for where in ("component", "response", "requestBody", "parameter"):
                out.append({"kind": "malformed", "bad": bad, "pos": pos, "where": where, "L": None})
    fr = 2 if tier == "quick" else 3
    to = 900 if tier == "quick" else 3600
    out.append({"kind": "tlc", "names": ["User", "UserGroup", "UserGroupItem"], "max_depth": 2, "max_frames": fr, "L": None, "_timeout_s": to})
    # the same model under the other depth limits (1: every nested enter is cut; 3: never cut within the frame bound, cycles only) and under a
    # name set with a neutral name and a synthetic-looking one that is nobody's prefix (the storage heuristics take their other branches)
    out.append({"kind": "tlc", "names": ["User", "UserGroup", "UserGroupItem"], "max_depth": 1, "max_frames": fr, "L": None, "_timeout_s": to})
    if tier != "quick":  # with 2 frames the limits 2 and 3 span the same graph
        out.append({"kind": "tlc", "names": ["User", "UserGroup", "UserGroupItem"], "max_depth": 3, "max_frames": fr, "L": None, "_timeout_s": to})
    out.append({"kind": "tlc", "names": ["Zed", "ZedProperty", "User"], "max_depth": 2, "max_frames": fr, "L": None, "_timeout_s": to})
    # long-running chain cases first (tail latency), then dedupe
    # hand-written shapes outside the edge alphabet: schemas that are nothing but a $ref (forwarding names) chained and in cycles; arrays of
    # arrays of primitives (2-D / 3-D), as property and as top-level schema
    for name in SHAPE_DOCS:
        out.append({"kind": "shape", "shape": name, "L": None})
    out = [c for c in out if c["kind"] == "tlc"] + [c for c in out if c["kind"] == "chain"][::-1] + [c for c in out if c["kind"] in ("malformed", "shape")] \
        + [c for c in out if c["kind"] == "graph"]
    seen = set()
    uniq = []
    for c in out:
        k = repr(sorted(c.items(), key=lambda kv: kv[0]))
        if k not in seen:
            seen.add(k)
            uniq.append(c)
    return uniq


# ----------------------------------------------------------------------------------------------
# chain documents
# ----------------------------------------------------------------------------------------------
def chain_doc(edge, named, depth):
    R = graphs.R
    schemas = {}
    if named:
        for i in range(depth + 1):
            base = {"type": "object", "properties": {"v": {"type": "integer"}}}
            if i < depth:
                nxt = f"S{i + 1}"
                if edge == "allof":
                    schemas[f"S{i}"] = {"allOf": [R(nxt), base]}
                    continue
                base["properties"]["n"] = graphs.edge_schema(edge, nxt)
            schemas[f"S{i}"] = base
        return sandbox.base_doc(schemas)
    # anonymous nesting: one top-level schema whose property nests `depth` levels without names

    def nest(d):
        if d == 0:
            return {"type": "object", "properties": {"v": {"type": "integer"}}}
        inner = nest(d - 1)
        if edge == "arr":
            return {"type": "array", "items": inner}
        if edge == "inl":
            return {"type": "object", "properties": {"x": inner}}
        if edge == "arrinl":
            return {"type": "array", "items": {"type": "object", "properties": {"x": inner}}}
        if edge == "map":
            return {"type": "object", "additionalProperties": inner}
        if edge == "oneof":
            return {"oneOf": [inner, {"type": "string"}]}
        if edge == "anyof":
            return {"anyOf": [inner, {"type": "integer"}]}
        if edge == "allof":
            return {"allOf": [inner, {"type": "object", "properties": {f"p{d}": {"type": "string"}}}]}
        raise HarnessError(edge)

    return sandbox.base_doc({"Top": {"type": "object", "properties": {"v": {"type": "integer"}, "n": nest(depth)}},
                             "After": {"type": "object", "properties": {"t": {"$ref": "#/components/schemas/Top"}}}})


def _R(n):
    return {"$ref": "#/components/schemas/" + n}


_NUM2 = {"type": "array", "items": {"type": "array", "items": {"type": "number"}}}
SHAPE_DOCS = {
    "alias-self": {"Loop": _R("Loop"), "Other": {"type": "object", "properties": {"l": _R("Loop")}}},
    "alias-2cycle": {"Alpha": _R("Beta"), "Beta": _R("Alpha")},
    "alias-3cycle": {"Alpha": _R("Beta"), "Beta": _R("Gamma"), "Gamma": _R("Alpha"), "User": {"type": "object", "properties": {"a": _R("Alpha")}}},
    "alias-chain-to-object": {"First": _R("Second"), "Second": _R("Third"), "Third": {"type": "object", "properties": {"v": {"type": "integer"}}},
                              "User": {"type": "object", "properties": {"f": _R("First")}}},
    "arrays-2d": {"LineString": {"type": "object", "properties": {"coordinates": _NUM2, "bbox": {"type": "array", "items": {"type": "number"}}}},
                  "Matrix": _NUM2,
                  "Polygon": {"type": "object", "properties": {"coordinates": {"type": "array", "items": _NUM2}, "line": _R("LineString")}}},
    "arrays-2d-strings": {"Grid": {"type": "object", "properties": {"cells": {"type": "array", "items": {"type": "array", "items": {"type": "string"}}},
                                                                   "flags": {"type": "array", "items": {"type": "array", "items": {"type": "boolean"}}}}}},
}


def malformed_doc(case):
    bad, pos = case["bad"], case["pos"]
    good = {"type": "object", "properties": {"v": {"type": "integer"}}}
    if pos == "property":
        sch = {"type": "object", "properties": {"owner": bad, "ok": {"type": "string"}}}
    elif pos == "items":
        sch = {"type": "object", "properties": {"list": {"type": "array", "items": bad}}}
    elif pos == "additionalProperties":
        sch = {"type": "object", "properties": {"m": {"type": "object", "additionalProperties": bad if not isinstance(bad, bool) else ["x"]}}}
    elif pos == "allOf-member":
        sch = {"allOf": [{"$ref": "#/components/schemas/Good"}, bad]}
    elif pos == "oneOf-member":
        sch = {"type": "object", "properties": {"u": {"oneOf": [{"$ref": "#/components/schemas/Good"}, bad]}}}
    else:
        sch = {"type": "object", "properties": {"meta": {"type": "object", "properties": {"inner": {"type": "object", "properties": {"owner": bad}}}}}}
    doc = sandbox.base_doc({"Good": good, "After": {"type": "object", "properties": {"g": {"$ref": "#/components/schemas/Good"},
                                                                                       "deep": {"type": "object", "properties": {"x": {"type": "object", "properties": {"y": {"type": "string"}}}}}}}})
    ok = {"200": {"description": "ok", "content": {"application/json": {"schema": {"$ref": "#/components/schemas/After"}}}}}
    if case["where"] == "component":
        doc["components"]["schemas"] = {"Good": good, "Broken": sch, "After": doc["components"]["schemas"]["After"]}
    elif case["where"] == "response":
        doc["paths"]["/broken"] = {"get": {"operationId": "getBroken", "responses": {"200": {"description": "d", "content": {"application/json": {"schema": sch}}}}}}
    elif case["where"] == "requestBody":
        doc["paths"]["/broken"] = {"post": {"operationId": "postBroken", "requestBody": {"content": {"application/json": {"schema": sch}}}, "responses": ok}}
    else:
        doc["paths"]["/broken"] = {"get": {"operationId": "getBroken", "parameters": [{"name": "f", "in": "query", "schema": sch}], "responses": ok}}
    doc["paths"]["/after"] = {"get": {"operationId": "getAfter", "responses": ok}}
    return doc


# ----------------------------------------------------------------------------------------------
# instrumentation (from the harness; no source hook)
# ----------------------------------------------------------------------------------------------
class Monitor:
    def __init__(self):
        self.events = []
        self.states = set()
        self.violations = []  # (clause, discrepancy, detail)
        self.ctx = None
        self.top = []

    def snap(self, ucc):
        return hash((ucc.recursion_depth, tuple(ucc.schema_stack), frozenset(ucc.schema_states.items())))


def run_monitored(doc, L):
    import pyopenapi_gen.core.loader.schemas.extractor as ex
    import pyopenapi_gen.core.parsing.unified_cycle_detection as ucd

    for mod, attr in ((ucd, "unified_enter_schema"), (ucd, "unified_exit_schema"), (ex, "_parse_schema")):
        if not hasattr(mod, attr):
            raise HarnessError(f"{mod.__name__}.{attr} not found: the tracker seam moved")
    mon = Monitor()
    real_enter, real_exit, real_parse = ucd.unified_enter_schema, ucd.unified_exit_schema, ex._parse_schema
    IP = ucd.SchemaState.IN_PROGRESS

    def enter(name, ctx):
        r = real_enter(name, ctx)
        mon.events.append(("E", name, r.action.value))
        mon.states.add(mon.snap(ctx))
        if ctx.recursion_depth < 0:
            mon.violations.append(("event", "negative depth", f"after enter({name})"))
        return r

    def exit_(name, ctx):
        real_exit(name, ctx)
        mon.events.append(("X", name, ""))
        mon.states.add(mon.snap(ctx))
        if ctx.recursion_depth < 0:
            mon.violations.append(("event", "negative depth", f"after exit({name})"))

    def parse(name, node, context, *a, **kw):
        ucc = context.unified_cycle_context
        top = ucc.recursion_depth == 0 and not ucc.schema_stack
        try:
            return real_parse(name, node, context, *a, **kw)
        finally:
            if top:
                mon.ctx = context
                mon.top.append(name)
                if ucc.recursion_depth != 0:
                    mon.violations.append(("rest", "depth not zero after a top-level schema", f"depth={ucc.recursion_depth} after {name}"))
                if ucc.schema_stack:
                    mon.violations.append(("rest", "stack not empty after a top-level schema", f"stack={ucc.schema_stack} after {name}"))
                ip = [k for k, v in ucc.schema_states.items() if v == IP]
                if ip:
                    mon.violations.append(("rest", "schema still IN_PROGRESS after a top-level schema", f"{ip} after {name}"))

    old_env = os.environ.get("PYOPENAPI_MAX_DEPTH")
    if L is None:
        os.environ.pop("PYOPENAPI_MAX_DEPTH", None)
    else:
        os.environ["PYOPENAPI_MAX_DEPTH"] = str(L)
    ucd.unified_enter_schema, ucd.unified_exit_schema, ex._parse_schema = enter, exit_, parse
    ir, err = None, None
    try:
        ir = sandbox.load_ir(doc)
    except RecursionError as e:
        err = e
    except Exception as e:
        err = e
    finally:
        ucd.unified_enter_schema, ucd.unified_exit_schema, ex._parse_schema = real_enter, real_exit, real_parse
        if old_env is None:
            os.environ.pop("PYOPENAPI_MAX_DEPTH", None)
        else:
            os.environ["PYOPENAPI_MAX_DEPTH"] = old_env
    return mon, ir, err


def final_checks(mon, ir, doc, ucd):
    out = []
    raw = doc["components"]["schemas"]
    if mon.ctx is None:
        raise HarnessError("loader never called the wrapped _parse_schema: seam moved")
    ucc = mon.ctx.unified_cycle_context
    terminal = {ucd.SchemaState.COMPLETED, ucd.SchemaState.PLACEHOLDER_CYCLE, ucd.SchemaState.PLACEHOLDER_DEPTH,
                ucd.SchemaState.PLACEHOLDER_SELF_REF}
    from pyopenapi_gen.core.utils import NameSanitizer

    for name in raw:
        st = ucc.schema_states.get(name)
        if st is None:
            st = ucc.schema_states.get(NameSanitizer.sanitize_class_name(name))
        if st not in terminal:
            out.append(("final", "declared schema not in a terminal state", f"{name}: {st.value if st else 'no state'}"))
        sn = NameSanitizer.sanitize_class_name(name)
        if not any(k == name or k == sn or s.name == sn for k, s in ir.schemas.items()):
            out.append(("final", "declared schema missing from the result", name))
    for k, v in ucc.schema_states.items():
        if v not in terminal and k not in raw:
            out.append(("final", "synthetic schema not in a terminal state", f"{k}: {v.value}"))
    return out


def discipline_violation(events):
    """The recorded enter/exit sequence must be a path of the environment automaton of mc/tla/CycleTracker.tla
    (frames with modes body / mustexit / fallthrough). `existing` may be followed by one exit (registered) or by
    exit + body + exit (not registered): simulated nondeterministically. Returns None or a description."""
    configs = {()}
    for i, (kind, name, action) in enumerate(events):
        nxt = set()
        for fr in configs:
            top = fr[-1] if fr else None
            if kind == "E":
                if top is not None and top[1] != "body":
                    continue  # an enter while the parser owes the balancing exit of the frame on top
                if action == "continue":
                    nxt.add(fr + ((name, "body"),))
                elif action in ("placeholder", "create"):
                    nxt.add(fr + ((name, "mustexit"),))
                elif action == "existing":
                    nxt.add(fr + ((name, "mustexit"),))
                    nxt.add(fr + ((name, "fallthrough"),))
            else:
                if top is None or top[0] != name:
                    continue  # exit of a name that is not the innermost open frame
                if top[1] in ("body", "mustexit"):
                    nxt.add(fr[:-1])
                else:
                    nxt.add(fr[:-1] + ((name, "body"),))
        if not nxt:
            return f"event #{i} {kind}({name}{',' + action if action else ''}) is not enabled in any environment state; prefix {[list(e) for e in events[max(0, i - 4):i + 1]]}"
        configs = nxt
    if () not in configs:
        return f"open frames remain at the end: {sorted(configs)[:2]}"
    return None


def run_tlc_case(case):
    from ..kernel import worker_scratch
    from ..tla import conform

    r = conform.check(case["names"], case["max_depth"], case["max_frames"], worker_scratch(), workers=2)
    label = f"tlc|names={case['names']}|MaxDepth={case['max_depth']}|MaxFrames={case['max_frames']}"
    found = []
    if r.get("error"):
        raise HarnessError(r["error"])
    if not r["tlc"]["ok"]:
        found.append({"sig": "C08|tlc|TLC reports an invariant violation of the tracker model (rest state / depth)", "key": label, "msg": r["tlc"]["output_tail"][-800:]})
    for m in r.get("mismatches", [])[:3]:
        found.append({"sig": "C08|tlc-conformance|a model transition disagrees with the real unified_enter_schema/unified_exit_schema", "key": label, "msg": m})
    seen = set()
    found = [f for f in found if not (f["sig"] in seen or seen.add(f["sig"]))]
    return {"findings": found, "nontrivial": label, "states": r.get("graph_states", 0), "transitions": r.get("edges", 0), "validated": r.get("distinct_edges_replayed", 0),
            "outcome": "tlc:" + ("finding" if found else "conforms"),
            "tlc": {"states": r.get("graph_states"), "edges": r.get("edges"), "distinct_edges_replayed_on_impl": r.get("distinct_edges_replayed"),
                    "mismatches": r.get("mismatch_count"), "invariants": ["TypeOK", "RestInv", "DepthNonNeg"], "tlc_ok": r["tlc"]["ok"],
                    "config": {"names": case["names"], "MaxDepth": case["max_depth"], "MaxFrames": case["max_frames"]}},
            "sample": {"tlc": label, "states": r.get("graph_states"), "edges": r.get("edges"), "replayed": r.get("distinct_edges_replayed")}}


def run_case(case):
    import pyopenapi_gen.core.parsing.unified_cycle_detection as ucd

    if case["kind"] == "tlc":
        return run_tlc_case(case)

    if case["kind"] == "graph":
        doc = graphs.doc_of(case)
        label = f"{case['menu']}|{graphs.describe(case)}|L={case['L']}"
        nontriv = graphs.has_cycle(case["nodes"]) or case["L"] is not None
    elif case["kind"] == "malformed":
        doc = malformed_doc(case)
        label = f"malformed|{type(case['bad']).__name__}|{case['pos']}|{case['where']}"
        nontriv = True
    elif case["kind"] == "shape":
        doc = sandbox.base_doc(json.loads(json.dumps(SHAPE_DOCS[case["shape"]])))
        label = f"shape|{case['shape']}"
        nontriv = True
    else:
        doc = chain_doc(case["edge"], case["named"], case["depth"])
        label = f"chain|{case['edge']}|{'named' if case['named'] else 'anonymous'}|depth={case['depth']}|L={case['L']}"
        nontriv = True
    old_limit = sys.getrecursionlimit()
    mon, ir, err = run_monitored(doc, case["L"])
    assert sys.getrecursionlimit() == old_limit
    found = []

    def add(clause, disc, detail):
        ctx = case["kind"] if case["kind"] in ("graph", "malformed") else ("shape:" + case["shape"]) if case["kind"] == "shape" else f"chain:{case['edge']}:{'named' if case['named'] else 'anonymous'}"
        found.append({"sig": f"C08|{clause}|{disc}|{ctx}", "key": label, "msg": f"{detail} in {label}"})

    if isinstance(err, RecursionError):
        add("termination", "RecursionError (interpreter stack exhausted instead of a depth placeholder)", "load raised RecursionError")
    elif err is not None and case["kind"] != "malformed":
        # every document of the graph / chain spaces is well formed: the loader has no reason to reject it
        add("load", f"well-formed document rejected: {type(err).__name__}", str(err)[:200])
    # end of loading (returned or raised): the tracker of the parsing context must be at rest
    if mon.ctx is not None:
        ucc = mon.ctx.unified_cycle_context
        if ucc.recursion_depth != 0 or ucc.schema_stack or any(v == ucd.SchemaState.IN_PROGRESS for v in ucc.schema_states.values()):
            add("rest", "tracker not at rest when loading ends", f"depth={ucc.recursion_depth} stack={ucc.schema_stack} "
                f"in_progress={[k for k, v in ucc.schema_states.items() if v == ucd.SchemaState.IN_PROGRESS]}")
    for clause, disc, detail in mon.violations:
        add(clause, disc, detail)
    dv = discipline_violation(mon.events)
    if dv:
        add("discipline", "the parser's enter/exit sequence is not a path of the tracker model's environment (unbalanced enter/exit)", dv)
    if ir is not None and case["kind"] != "malformed":
        for clause, disc, detail in final_checks(mon, ir, doc, ucd):
            add(clause, disc, detail)
        if case["kind"] == "chain":
            ucc = mon.ctx.unified_cycle_context
            cut = bool(ucc.depth_exceeded_schemas)
            if case["depth"] >= 2 * (case["L"] or 150) + 2 and case["named"] and not cut:
                add("limit", "no depth placeholder although the chain is more than twice the limit", f"depth_exceeded={sorted(ucc.depth_exceeded_schemas)}")
            if case["depth"] * 3 + 3 < (case["L"] or 150) and cut:
                add("limit", "depth placeholder although nesting is far below the limit", f"depth_exceeded={sorted(ucc.depth_exceeded_schemas)}")
    # dedupe per signature
    seen = set()
    uniq = []
    for f in found:
        if f["sig"] not in seen:
            seen.add(f["sig"])
            uniq.append(f)
    actions = sorted({e[2] for e in mon.events if e[0] == "E"})
    return {"findings": uniq, "nontrivial": label if nontriv else None,
            "states": len(mon.states), "transitions": len(mon.events), "validated": 1,
            "outcome": ("rejected:" + type(err).__name__ if err is not None else "loaded") + ":" + "+".join(actions) + (":finding" if uniq else ""),
            "sample": {"case": label, "events": len(mon.events), "first_events": [list(e) for e in mon.events[:12]]}}
