"""C03 - model JSON round-trip preserves every value and wire key."""
from __future__ import annotations

import json
import os
import re

from .. import sandbox
from ..kernel import HarnessError
from ..space import fields
from .c04 import json_equiv
from .c05 import norm

PID = "C03"
LEVEL = "exploration"
RULE = ("every model of the field space (each property kind x required x default, each kind x name style, reduced pairs of kinds and of name styles) x "
        "EVERY document of its instance menu (per property: absent if optional, 2 typical values, 1 edge value; all combinations); each document is "
        "structured into the generated model and unstructured again with the package's own bundled converter in the runtime-only interpreter. "
        "non-trivial = distinct (model, document) pairs with at least one property present")
ASSUMPTIONS = [
    "tolerated difference: an absent optional property may reappear as null / [] / {} or, when the schema declares a default, as that default; date-times are compared as instants (Z vs +00:00)",
    "models whose package does not import are C01's subject and only counted",
]
BOUND = {"quick": "~450 models (47 field kinds; 13 kinds also nested through a reference / array / map of a second model) x <=16 documents", "thorough": "all kinds x all name styles singles + all kind pairs + every kind nested through a reference / optional reference / array / map of a second model (required and optional inner field)"}
CHUNK = 1
PACK = 8


def cases(tier, seed):
    fs = fields.singles(tier) + fields.pairs(tier) + fields.collisions(tier) + fields.nested(tier)
    return [{"models": fs[i:i + PACK]} for i in range(0, len(fs), PACK)]


def run_pack(models, stats):
    stats["generations"] = stats.get("generations", 0) + 1
    doc = fields.pack_doc(models)
    with sandbox.scratch() as d:
        root = os.path.join(d, "proj")
        files, err = sandbox.generate(doc, root)
        if err is not None:
            if len(models) == 1:
                return [{"status": "rejected"}]
            mid = len(models) // 2
            return run_pack(models[:mid], stats) + run_pack(models[mid:], stats)
        jobs = [{"id": i, "class": f"M{i}", "docs": fields.instances(m)} for i, m in enumerate(models)]
        res = sandbox.zygote_job({"roots": [root], "allow": ["cli"], "driver": "roundtrip",
                                  "args": {"package": "cli", "core": "cli.core", "jobs": jobs}}, timeout_s=100)
    if "_crash" in res:
        raise HarnessError("roundtrip driver crashed: " + res["_crash"] + res.get("_tb", ""))
    if res["errors"]:
        if len(models) == 1:
            return [{"status": "unimportable", "error": res["errors"][0]["raw"]}]
        mid = len(models) // 2
        return run_pack(models[:mid], stats) + run_pack(models[mid:], stats)
    return [{"status": "ok", "rec": r} for r in res["results"]]


def argn(name):
    from pyopenapi_gen.core.utils import NameSanitizer

    return NameSanitizer.sanitize_method_name(name)


def defaults_applied(model, doc):
    """an absent optional property that declares a default may come back as that default (not demanded either way)"""
    if model.get("wrap"):
        inner = {"fields": model["fields"]}
        v = doc.get(fields.WRAP_PROP)
        out = dict(doc)
        if isinstance(v, list):
            out[fields.WRAP_PROP] = [defaults_applied(inner, x) for x in v]
        elif isinstance(v, dict) and model["wrap"] == "map":
            out[fields.WRAP_PROP] = {k: defaults_applied(inner, x) for k, x in v.items()}
        elif isinstance(v, dict):
            out[fields.WRAP_PROP] = defaults_applied(inner, v)
        return out
    out = dict(doc)
    alts = [out]
    d2 = dict(doc)
    for f in model["fields"]:
        if f.get("default") and f["name"] not in doc:
            d2[f["name"]] = fields.KINDS[f["kind"]][1]
        ref = (fields.KINDS[f["kind"]][0] or {}).get("$ref", "").rsplit("/", 1)[-1]
        if ref in fields.NAMED_ENUMS and f["name"] not in doc:
            d2[f["name"]] = fields.NAMED_ENUMS[ref]["default"]  # the referenced schema declares the default
    return d2


def exc_disc(e):
    m = re.sub(r"'[^']*'", "'*'", e["msg"])
    m = re.sub(r"^- \S+?:", "- <field>:", m, flags=re.M)
    m = re.sub(r"\d+", "N", m)
    m = re.sub(r"\s+", " ", m)
    return f"{e['type']}: {m[:80]}"


def run_case(case):
    models = case["models"]
    stats = {}
    res = run_pack(models, stats)
    found = []
    seen = set()
    nontriv = []
    outcomes = set()
    n = 0
    for m, r in zip(models, res):
        outcomes.add(r["status"])
        if r["status"] != "ok":
            continue
        rec = r["rec"]
        desc = fields.describe(m)
        kinds = "+".join(sorted({f["kind"] for f in m["fields"]}))

        def add(clause, disc, detail, key_extra=""):
            sig = f"C03|{clause}|{disc}"
            key = f"{desc}|{key_extra}"
            if (sig, key) not in seen:
                seen.add((sig, key))
                found.append({"sig": sig, "key": key, "msg": f"{detail} | model {desc}"})

        if rec.get("missing"):
            add("model-missing", "no class exported for the schema", "models.%s" % rec["class"])
            continue
        names = fields.root_names(m) + (["tag"] if m.get("wrap") else [])
        load, dump = rec.get("meta_load", {}), rec.get("meta_dump", {})
        if sorted(load) != sorted(names):
            add("wire-keys", "Meta.key_transform_with_load keys are not exactly the spec's property names", f"{sorted(load)} vs {sorted(names)}")
        elif {v: k for k, v in load.items()} != dump or len(set(load.values())) != len(load):
            add("wire-keys", "Meta load/dump maps are not mutually inverse bijections", f"load={load} dump={dump}")
        docs = fields.instances(m)
        for doc, d in zip(docs, rec["docs"]):
            n += 1
            if doc:
                nontriv.append(f"{desc}|{json.dumps(doc, sort_keys=True)}")
            present = "+".join(sorted(f["kind"] for f in m["fields"] if f["name"] in doc)) or "nothing-present"
            err = d.get("structure_error") or d.get("unstructure_error")
            if err:
                mm = re.search(r"^- (\S+?):", err["msg"], re.M)
                mt = re.search(r"Unsupported type: <class '([^']+)'>", err["msg"])
                byname = {argn(f["name"]): f["kind"] for f in m["fields"]}
                byname.update({f["name"]: f["kind"] for f in m["fields"]})
                if mm and mm.group(1) in byname:
                    present = byname[mm.group(1)]
                elif mt:
                    present = "type " + mt.group(1)
            if m.get("wrap"):
                present = m["fields"][0]["kind"] + "@nested"
            dj = json.dumps(doc, sort_keys=True)[:150]
            if "structure_error" in d:
                add("structure", f"conforming document rejected [{present}]: {exc_disc(d['structure_error'])}", f"doc {dj}: {d['structure_error']['msg'][:150]}", dj)
                continue
            if "unstructure_error" in d:
                add("unstructure", f"instance cannot be encoded [{present}]: {exc_disc(d['unstructure_error'])}", f"doc {dj}: {d['unstructure_error']['msg'][:150]}", dj)
                continue
            back = norm(d["back"])
            want = norm(doc)
            if not json_equiv(back, want) and not json_equiv(back, norm(defaults_applied(m, doc))):
                bad = sorted(k for k in set(back) | set(want) if not json_equiv({k: back.get(k)}, {k: want.get(k)})) if isinstance(back, dict) else ["<root>"]
                badkinds = "+".join(sorted({f["kind"] for f in m["fields"] if f["name"] in bad})) or "key-set"
                if m.get("wrap"):
                    badkinds = m["fields"][0]["kind"] + "@nested"
                add("roundtrip", f"round-trip changes the document [{badkinds}]", f"doc {dj} came back as {json.dumps(back, sort_keys=True)[:200]}", dj)
    return {"findings": found, "evals": n, "nontrivial": nontriv, "nontrivial_multi": True,
            "outcome": "+".join(sorted(outcomes)) + (":finding" if found else ""),
            "sample": {"model": fields.describe(models[0]), "documents": len(fields.instances(models[0])), "first": fields.instances(models[0])[:2]}}
