"""C11 - clients sharing one core package keep working as more are generated (explicit-state BFS over generation histories)."""
from __future__ import annotations

import ast
import collections
import json
import os
import shutil

from .. import pkgcheck, sandbox
from ..kernel import HarnessError
from ..space import ops

PID = "C11"
ISOLATE = True  # every case (history) in its own forked process, from the same never-executed generator state
LEVEL = "model_checking"
RULE = ("per core layout (top-level core, pk.core, pk.shared.core, pk.a.b.core, vendor-prefixed acme_core next to client acme, core owned by the first client and reused by later ones): breadth-first search over "
        "generation histories; events = gen(client in {c1,c2[,c3]}, spec in {404, 422+500, none[, 404+500]}, force in {True,False}); each transition runs the real "
        "generator on a copy of the project tree of the source state; states are canonicalised to (client -> spec last generated, exception classes in the core, "
        "registry contents) and the search runs to fixpoint (quick: 2 clients) or to depth 4 (thorough: 3 clients). After every transition every client generated so "
        "far is imported in the runtime-only interpreter. non-trivial = distinct transitions that change the canonical state")
ASSUMPTIONS = [
    "canonical state = (client -> spec of its last successful generation, set of classes exported by <core>/exception_aliases.py, contents of "
    ".exception_registry.json): what a client can import from the core depends on nothing else, the copied runtime files being identical in every generation",
    "a non-force generation that raises (differences found) is a transition like any other: the resulting tree is what is explored",
]
BOUND = {"quick": "6 layouts x 2 clients x 2-3 specs, forced generations for both clients + non-forced for the first, BFS to fixpoint; + one 17-step sweep history per layout", "thorough": "6 layouts x 3 clients x 4 specs x 2 force modes, BFS to depth 4"}
CHUNK = 1
CASE_TIMEOUT_S = 1500

LAYOUTS = {
    "core": {"core": "core", "clients": ["c1", "c2", "c3"]},
    "pk.core": {"core": "pk.core", "clients": ["pk.c1", "pk.c2", "pk.c3"]},
    "pk.shared.core": {"core": "pk.shared.core", "clients": ["pk.c1", "pk.c2", "pk.c3"]},
    "pk.a.b.core": {"core": "pk.a.b.core", "clients": ["pk.c1", "pk.c2", "pk.c3"]},
    "acme_core": {"core": "acme_core", "clients": ["acme", "billing", "acme_core_tools"]},
    # the first client is generated with its DEFAULT core (no core_package given); later clients point at <first>.core
    "first-client-core": {"core": "inventory.core", "clients": ["inventory", "billing", "shipping"], "default_for": "inventory"},
}
SPECS = {
    "s404": {"200": "json-model", "404": "none"},
    "s422+500": {"200": "json-model", "422": "none", "500": "json-other"},
    "snone": {"200": "json-model"},
    "s404+500": {"200": "json-model", "404": "json-other", "500": "none"},
}


def spec_doc(name):
    c = ops.op("get", "/x/{id}", [ops.param("id", "path", True, "integer")], None, SPECS[name])
    c["tags"] = ["things"]
    c["op_id"] = "getThing"
    doc, _ = ops.build_doc([c], auto_tag=False, auto_id=False, prefix=False)
    return doc


SWEEP_CODES = [404, 499, 422, 520, 409, 418, 401, 403, 429, 500, 503, 400, 502, 504, 410, 415, 451]  # 418: the only reason phrase with an apostrophe  # 499 / 520: error codes without a registered name


def cases(tier, seed):
    # "sweep": a linear history in which every new client brings one more status code, so that the shared core accumulates 1, 2, ... 16
    # exception classes (whatever the core renders from the union - class list, imports, __all__ - is exercised at every size)
    return [{"layout": l, "tier": tier} for l in LAYOUTS] + [{"layout": l, "tier": tier, "sweep": True} for l in LAYOUTS]


def core_state(root, core_pkg):
    cdir = pkgcheck.pkg_dir(root, core_pkg)
    classes = []
    p = os.path.join(cdir, "exception_aliases.py")
    if os.path.exists(p):
        try:
            tree = ast.parse(open(p).read())
            classes = sorted(n.name for n in tree.body if isinstance(n, ast.ClassDef))
        except SyntaxError:
            classes = ["<unparsable>"]
    reg = None
    rp = os.path.join(cdir, ".exception_registry.json")
    if os.path.exists(rp):
        try:
            reg = json.dumps(json.load(open(rp)), sort_keys=True)
        except Exception:
            reg = "<unreadable>"
    return tuple(classes), reg


def import_clients(root, clients, core_pkg):
    """[(client, normalised error, raw)] for every generated client that no longer imports"""
    bad = []
    for c in clients:
        tops = sorted({c.split(".")[0], core_pkg.split(".")[0]})
        res = sandbox.zygote_job({"roots": [root], "allow": tops, "driver": "import_all", "args": {"packages": [c], "root": root}})
        if "_crash" in res:
            raise HarnessError("import driver crashed: " + res["_crash"])
        for f in res["failures"]:
            if f["kind"] == "import" and not f["module"].split(".")[-1].startswith("mock") and ".mocks" not in f["module"]:
                bad.append((c, f["error"], f"{f['module']}: {f['raw']}"))
                break
    return bad


def _transition(t):
    """one generation = one process (a separate CLI invocation in real use): copy the source tree, run the generator"""
    lay, sdir, tdir, c, s, force, doc = t
    shutil.copytree(sdir, tdir, symlinks=True)
    root = os.path.join(tdir, "proj")
    core_arg = None if lay.get("default_for") == c else lay["core"]
    files, err = sandbox.generate(doc, root, output_package=c, core_package=core_arg, force=force, spec_name=f"{s}.json")
    present = [x for x in lay["clients"] if os.path.isdir(pkgcheck.pkg_dir(root, x))]
    return {"ok": err is None, "core_state": core_state(root, lay["core"]), "present": present}


def _imports(t):
    root, generated, core = t
    return import_clients(root, generated, core)


def run_sweep(case):
    lay = LAYOUTS[case["layout"]]
    first = lay["clients"][0]
    prefix = first.rsplit(".", 1)[0] + "." if "." in first else ""
    clients = [first] + [f"{prefix}svc{i}" for i in range(1, len(SWEEP_CODES))]
    found = []
    nontriv = []
    hist = []
    with sandbox.scratch("c11s-") as base:
        root = os.path.join(base, "proj")
        os.makedirs(root)
        for i, (c, code) in enumerate(zip(clients, SWEEP_CODES)):
            op = ops.op("get", "/x/{id}", [ops.param("id", "path", True, "integer")], None, {"200": "json-model", str(code): "none"})
            op["tags"] = ["things"]
            op["op_id"] = "getThing"
            doc, _ = ops.build_doc([op], auto_tag=False, auto_id=False, prefix=False)
            core_arg = None if lay.get("default_for") == c else lay["core"]
            files, err = sandbox.generate(doc, root, output_package=c, core_package=core_arg, force=True, spec_name=f"sweep{i}.json")
            hist.append(f"gen({c},s{code},force)")
            key = f"{case['layout']}|sweep|{' ; '.join(hist)}"
            nontriv.append(key)
            if err is not None:
                found.append({"sig": f"C11|{case['layout']}|sweep: generation into the shared project fails|{type(err).__name__}", "key": key, "msg": f"{err} | {key}"[:400]})
                break
            for cl, e, raw in import_clients(root, clients[:i + 1], lay["core"]):
                victim = "the client just generated" if cl == c else "a client generated earlier"
                found.append({"sig": f"C11|{case['layout']}|{victim} does not import after the step|{e}", "key": key,
                              "msg": f"{cl}: {raw} | {i + 1} clients, {i + 1} exception classes | history {' ; '.join(hist)}"})
            if found:
                break
    return {"findings": found, "evals": len(hist), "nontrivial": nontriv, "nontrivial_multi": True, "states": len(hist) + 1, "transitions": len(hist), "validated": len(hist),
            "outcome": f"{case['layout']}:sweep:" + ("finding" if found else "ok"),
            "sample": {"layout": case["layout"], "sweep_steps": len(hist), "codes": SWEEP_CODES[:len(hist)]}}


def run_case(case):
    from .. import kernel

    if case.get("sweep"):
        return run_sweep(case)
    lay = LAYOUTS[case["layout"]]
    tier = case["tier"]
    clients = lay["clients"][:2] if tier == "quick" else lay["clients"]
    # s404 is a subset of s404+500 (a client whose codes are all covered by another's), s422+500 is disjoint from s404
    specs = ["s404", "s422+500", "s404+500"] if tier == "quick" else list(SPECS)
    if tier == "quick" and case["layout"] in ("pk.shared.core", "pk.a.b.core", "acme_core", "first-client-core"):
        specs = ["s404", "s422+500"]
    max_depth = None if tier == "quick" else 4
    lanes = max(1, -(-int(os.environ.get("VERIF_WORKERS", "16")) // len(LAYOUTS)))
    events = [(c, s, f) for c in clients for s in specs for f in (True, False)]
    if tier == "quick":
        # non-force generations only for the first client (thorough: for every client)
        events = [e for e in events if e[2] or e[0] == clients[0]]
    docs = {s: spec_doc(s) for s in specs}
    found = []
    seen_sig = set()
    states = {}
    transitions = 0
    changed = 0
    nontriv = []
    with sandbox.scratch("c11-") as base:
        n = [0]

        def new_dir():
            n[0] += 1
            return os.path.join(base, f"s{n[0]}")

        init = new_dir()
        os.makedirs(os.path.join(init, "proj"))
        init_key = (tuple((c, None) for c in clients), ((), None))
        states[init_key] = (init, [])
        level = [init_key]
        depth = 0
        # level-synchronous breadth-first search: all transitions of one level run in parallel (each in its own process),
        # their results are merged in task order, so the search is independent of timing
        while level and (max_depth is None or depth < max_depth):
            tasks = []
            for key in level:
                sdir, hist = states[key]
                for (c, s, force) in events:
                    tasks.append((key, hist, c, s, force, new_dir()))
            results = kernel.fork_map(_transition, [(lay, states[k][0], tdir, c, s, force, docs[s]) for (k, h, c, s, force, tdir) in tasks], lanes)
            nxt = []
            fresh = []
            for (key, hist, c, s, force, tdir), r in zip(tasks, results):
                transitions += 1
                ev = f"gen({c},{s},{'force' if force else 'noforce'})"
                h2 = hist + [ev]
                cfg = dict(key[0])
                if r["ok"]:
                    cfg[c] = s
                generated = [x for x in clients if x in r["present"]]
                nk = (tuple((x, cfg[x]) for x in clients), r["core_state"])
                if nk != key:
                    changed += 1
                    nontriv.append(f"{case['layout']}|{' ; '.join(h2)}")
                if nk not in states:
                    states[nk] = (tdir, h2)
                    nxt.append(nk)
                    fresh.append((nk, c, h2, os.path.join(tdir, "proj"), generated))
                else:
                    shutil.rmtree(tdir, ignore_errors=True)
            # invariant: every client generated so far still imports. What a client can import depends only on the canonical
            # state (see ASSUMPTIONS), so the import run is made when a canonical state is reached for the first time
            imps = kernel.fork_map(_imports, [(root, generated, lay["core"]) for (_, _, _, root, generated) in fresh], lanes)
            for (nk, c, h2, root, generated), bad in zip(fresh, imps):
                for cl, e, raw in bad:
                    victim = "the client just generated" if cl == c else "a client generated earlier"
                    sig = f"C11|{case['layout']}|{victim} does not import after the step|{e}"
                    k = f"{case['layout']}|{' ; '.join(h2)}"
                    if (sig, k) not in seen_sig:
                        seen_sig.add((sig, k))
                        found.append({"sig": sig, "key": k, "msg": f"{cl}: {raw} | history {' ; '.join(h2)}"})
            level = nxt
            depth += 1
    # one finding per signature for the report, all keys for the witness set
    return {"findings": found, "evals": transitions, "nontrivial": nontriv, "nontrivial_multi": True,
            "states": len(states), "transitions": transitions, "validated": transitions,
            "outcome": f"{case['layout']}:" + ("finding" if found else "ok"),
            "sample": {"layout": case["layout"], "states": len(states), "transitions": transitions, "state_changing": changed,
                       "fixpoint": max_depth is None, "deepest_history": max((h for _, h in states.values()), key=len)}}
