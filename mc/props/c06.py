"""C06 - non-2xx responses always raise a status-carrying, class-correct error."""
from __future__ import annotations

import base64
import itertools
import json

from .. import driven
from ..kernel import HarnessError
from ..space import ops

PID = "C06"
LEVEL = "exploration"
RULE = ("operations with every declared-response set of size<=3 over {200 (JSON model / SSE stream / byte stream), 204, 302, 404, 422, 499, 500, 520, default, default+content} (499/520: error codes without a named exception class) x EVERY status 100..599 outside "
        "200-299 answered by the in-memory server x transport in {bundled HttpxTransport, custom pass-through transport that returns non-2xx unraised}; "
        "each call must raise an instance of the package's HTTPError carrying that status and the response; 4xx -> ClientError, 5xx -> ServerError. "
        "non-trivial = distinct (declared set, status, transport) calls")
ASSUMPTIONS = [
    "body kinds other than the JSON object are exercised at 10 representative statuses (100, 302, 400, 404, 422, 499, 500, 503, 520, 599), not at all 400",
    "an operation whose generated module cannot be imported is reported under its own clause (no call is possible, so no error can be raised)",
]
BOUND = {"quick": "166 declared sets of size<=3 over 10 elements (sets with `default` also with `default` listed first; 5 two-tag operations called through either tag client) x (400 statuses + 15 further body / header kinds x 10 statuses), 12 elements incl. streaming 200s, x 2 transports (+ component-ref variant on the custom transport)", "thorough": "same (the space is complete at this bound) + sets of size 4"}
CHUNK = 1
PACK = 6

ELEMS = ["200", "200-sse", "200-bytes", "204", "302", "404", "422", "499", "500", "520", "default", "default+content"]
CONTENT = {"200-sse": "event-stream", "200-bytes": "octet", "200": "json-model", "204": "none", "302": "none", "404": "json-model", "422": "none", "499": "none", "500": "json-model", "520": "json-model", "default": "none",
           "default+content": "json-model"}
STATUSES = [s for s in range(100, 600) if not 200 <= s <= 299]


def op_cases(tier):
    out = []
    maxk = 3 if tier == "quick" else 4
    for k in range(1, maxk + 1):
        for combo in itertools.combinations(ELEMS, k):
            if "default" in combo and "default+content" in combo:
                continue
            if sum(1 for e in combo if e.startswith("200")) > 1:
                continue
            responses = {}
            for e in combo:
                responses["default" if e.startswith("default") else e.split("-")[0]] = CONTENT[e]
            out.append(ops.op("get", "/e", [], None, responses))
            # the order in which the document lists the responses carries no meaning: the same set with `default` written first
            if k >= 2 and any(e.startswith("default") for e in combo):
                dk = next(e for e in combo if e.startswith("default"))
                rev = {"default": CONTENT[dk]}
                rev.update({kk: v for kk, v in responses.items() if kk != "default"})
                out.append(ops.op("get", "/e", [], None, rev))
    # operations that carry two tags: whatever tag client the caller goes through, the same errors are raised
    for combo in (("404",), ("200", "404", "default"), ("default",), ("200-sse", "500"), ("204", "422", "default+content")):
        responses = {("default" if e.startswith("default") else e.split("-")[0]): CONTENT[e] for e in combo}
        c = ops.op("get", "/e2", [], None, responses)
        c["two_tags"] = True
        out.append(c)
    return out


def cases(tier, seed):
    oc = op_cases(tier)
    out = []
    for tr in ("bundled", "custom"):
        for i in range(0, len(oc), PACK):
            out.append({"ops": oc[i:i + PACK], "transport": tr, "refs": False})
    for i in range(0, len(oc), PACK):
        out.append({"ops": oc[i:i + PACK], "transport": "custom", "refs": True})
    return out


def _b(raw):
    return base64.b64encode(raw).decode()


# error bodies as servers and proxies really send them: (label, content type, raw body)
BODIES = [
    ("json-object", "application/json", json.dumps({"id": 1, "message": "m"}).encode()),
    ("json-array", "application/json", b'[{"msg": "a"}, {"msg": "b"}]'),
    ("json-string", "application/json", b'"nope"'),
    ("json-null", "application/json", b"null"),
    ("json-malformed", "application/json", b"{oops"),
    ("problem+json", "application/problem+json", b'{"title": "t", "detail": ["x"]}'),
    ("empty", "application/json", b""),
    ("html", "text/html; charset=utf-8", b"<h1>Bad gateway</h1>"),
    ("no-ctype", "", b"plain"),
    # bodies that error handling must survive whatever it does with the text: long, multi-byte characters at round byte offsets, not UTF-8, binary
    ("long-utf8", "text/html; charset=utf-8", b"a" * 2047 + "\u00e9\u20ac\U0001f600".encode() * 700),
    ("long-utf8-odd", "text/html", b"a" * 1023 + "\u20ac".encode() * 2000),
    ("latin1-no-charset", "text/html", "caf\u00e9 cr\u00e8me".encode("latin-1")),
    ("binary", "application/octet-stream", bytes(range(256))),
    # response headers that error handling might look at, in every legal spelling
    ("retry-after-date", "application/json", b'{"message": "slow down"}', {"Retry-After": "Wed, 21 Oct 2015 07:28:00 GMT"}),
    ("retry-after-seconds", "application/json", b'{"message": "slow down"}', {"Retry-After": "120"}),
    ("www-authenticate", "application/json", b'{"message": "who"}', {"WWW-Authenticate": 'Bearer realm="x", error="invalid_token"', "Content-Language": "fi"}),
]
BODY_STATUSES = [100, 302, 400, 404, 422, 499, 500, 503, 520, 599]
# every status with the plain JSON object body + every body kind at ten representative statuses
CALLS = [(s, 0) for s in STATUSES] + [(s, b) for s in BODY_STATUSES for b in range(1, len(BODIES))]


def make_calls(case):
    one = [{"kwargs": {}, "response": {"status": s, "ctype": BODIES[b][1], "body_b64": _b(BODIES[b][2]), "headers": (BODIES[b][3] if len(BODIES[b]) > 3 else None)}}
           for s, b in CALLS]
    if case.get("two_tags"):
        return one + [dict(c, via_second_tag=True) for c in one]
    return one


def run_case(case):
    cs = case["ops"]
    tr = case["transport"]
    refs = bool(case.get("refs"))
    res = driven.drive_pack(cs, make_calls, tr, refs=refs)
    found = []
    seen = set()
    nontriv = []
    ncalls = 0
    outcomes = set()
    for c, r in zip(cs, res):
        declared = sorted(c["responses"])
        dlabel = ",".join(f"{k}:{v}" for k, v in c["responses"].items()) + ("|two-tags" if c.get("two_tags") else "")

        def add(clause, disc, detail, status=None, body=0, second=False):
            sig = f"C06|{clause}|{disc}"
            key = f"{tr}|{dlabel}|{status}" + (f"|body={BODIES[body][0]}" if body else "") + ("|via-component-refs" if refs else "") + ("|via-second-tag" if second else "")
            if (sig, key) not in seen:
                seen.add((sig, key))
                found.append({"sig": sig, "key": key, "msg": f"{detail} [declared {dlabel}; transport {tr}]"})

        if r["status"] == "rejected":
            outcomes.add("rejected")
            continue
        if r["status"] == "unimportable":
            outcomes.add("unimportable")
            import re

            add("unimportable", "generated package cannot be imported, no call can raise anything: " + re.sub(r"'[^']*'", "'*'", r["error"].split("(")[0])[:100],
                r["error"][:200])
            continue
        outcomes.add("driven")
        for rec in r["records"]:
            s, bk = CALLS[rec["id"][1] % len(CALLS)]
            second = rec["id"][1] >= len(CALLS)
            ncalls += 1
            nontriv.append(f"{tr}|{dlabel}|{s}|{bk}|{refs}|{second}")
            cls = f"{s // 100}xx"
            if str(s) in declared:
                how = "declared"
            elif "default" in declared:
                how = "covered-by-default" + ("+content" if c["responses"]["default"] != "none" else "")
            else:
                how = "undeclared"
            ctx = f"{tr}|{cls}|{how}"  # the body kind is part of the witness key, not of the signature
            if rec.get("lookup_error"):
                add("lookup", "method not found", rec["lookup_error"], s, bk, second)
                continue
            if rec.get("kind") != "raise":
                add(ctx, "call returned a value instead of raising", f"status {s} returned {json.dumps(rec.get('value'))[:80]}", s, bk, second)
                continue
            e = rec["exc"]
            if not e.get("is_HTTPError"):
                add(ctx, f"raised {e['type']} which is not an HTTPError", f"status {s}: {e['msg'][:120]}", s, bk, second)
                continue
            if e.get("status_code") != s:
                add(ctx, "HTTPError.status_code differs from the response status", f"status {s}: status_code={e.get('status_code')}", s, bk, second)
            if e.get("response_status") != s:
                add(ctx, "HTTPError.response missing or not the response", f"status {s}: response_status={e.get('response_status')}", s, bk, second)
            if 400 <= s <= 499 and not e.get("is_ClientError"):
                add(ctx, f"4xx raises {('HTTPError' if e['type'] == 'HTTPError' else 'a class')} that is not a ClientError", f"status {s}: {e['type']} mro={e['mro'][:4]}", s, bk, second)
            if 500 <= s <= 599 and not e.get("is_ServerError"):
                add(ctx, f"5xx raises {('HTTPError' if e['type'] == 'HTTPError' else 'a class')} that is not a ServerError", f"status {s}: {e['type']} mro={e['mro'][:4]}", s, bk, second)
    return {"findings": found, "evals": ncalls, "nontrivial": nontriv, "nontrivial_multi": True,
            "outcome": "+".join(sorted(outcomes)) + (":finding" if found else ""),
            "sample": {"declared": [sorted(c["responses"]) for c in cs[:3]], "transport": tr, "statuses": len(STATUSES)}}
