"""C17 - the transport applies defaults, per-request headers and auth plugins as documented."""
from __future__ import annotations

import asyncio
import itertools
import json

from ..kernel import HarnessError

PID = "C17"
USES_GENERATOR = False
LEVEL = "exploration"
RULE = ("every ordered sequence of <=3 (thorough 4) plugins from a menu of 9 plugin instances (bearer, API key in header / header named Authorization / query / "
        "cookie, extra headers disjoint / case-variant overlapping, OAuth2 without / with refresh), used directly (length 1) and wrapped in CompositeAuth, "
        "x transport defaults {none, X-A, x-a} x per-request headers {none, X-A} x caller params+json present or not x bearer_token argument; THREE requests are sent "
        "on each transport (given headers; other headers; no headers) so that state kept by the transport or a plugin between requests is observed; each request "
        "that leaves the real HttpxTransport (captured by httpx.MockTransport) is compared with a reference model of the documented pipeline. "
        "non-trivial = distinct configurations with at least one plugin or header source")
ASSUMPTIONS = [
    "for header names that differ only in case the oracle demands only that the highest-precedence value is among those sent",
    "httpx.AsyncClient is replaced by a subclass that injects httpx.MockTransport; no private attribute of the transport is touched",
]
BOUND = {"quick": "820 plugin sequences x 3 defaults x 3 per-request header sets x 5 caller-argument sets x 2 bearer settings x 3 requests per transport, sequences of >=2 plugins also as composites nested inside a composite (head / tail grouping) = 296730 requests", "thorough": "7381 plugin sequences (length<=4) x every transport configuration, flat and nested (head / tail) composites"}
CHUNK = 4

PLUGINS = ["bearer", "key-header", "key-authz", "key-query", "key-cookie", "hdr-extra", "hdr-case", "oauth", "oauth-refresh"]


class _Mode(str, __import__("enum").Enum):
    FAST = "fast"


def cases(tier, seed):
    seqs = [[]]
    for k in range(1, (3 if tier == "quick" else 4) + 1):
        seqs += [list(s) for s in itertools.product(PLUGINS, repeat=k)]
    out = []
    B = 20
    for i in range(0, len(seqs), B):
        out.append({"seqs": seqs[i:i + B], "nested_everywhere": tier != "quick"})
    return out


QUERY_KEY = "k3+/= %&x"   # a key with characters that are reserved in a query string: the server must decode exactly this


def make_plugin(name, plugins_mod):
    if name == "bearer":
        return plugins_mod.BearerAuth("tok1")
    if name == "key-header":
        return plugins_mod.ApiKeyAuth("k1", "header", "X-API-Key")
    if name == "key-authz":
        return plugins_mod.ApiKeyAuth("k2", "header", "Authorization")
    if name == "key-query":
        return plugins_mod.ApiKeyAuth(QUERY_KEY, "query", "api_key")
    if name == "key-cookie":
        return plugins_mod.ApiKeyAuth("k4", "cookie", "sid")
    if name == "hdr-extra":
        return plugins_mod.HeadersAuth({"X-Extra": "e"})
    if name == "hdr-case":
        return plugins_mod.HeadersAuth({"x-a": "plug"})
    if name == "oauth":
        return plugins_mod.OAuth2Auth("oa")
    if name == "oauth-refresh":
        async def refresh(old):
            import asyncio as _a

            await _a.sleep(0)   # a refresh that really suspends, as a network call does
            return "new-" + old

        return plugins_mod.OAuth2Auth("old", refresh)
    raise HarnessError(name)


def reference(seq, defaults, req_headers, bearer_token, k=0):
    """expected headers (exact names, last writer wins), query additions, cookies"""
    h = {}
    h.update(defaults)
    h.update(req_headers)
    q, c = {}, {}
    if seq:
        for p in seq:
            if p == "bearer":
                h["Authorization"] = "Bearer tok1"
            elif p == "key-header":
                h["X-API-Key"] = "k1"
            elif p == "key-authz":
                h["Authorization"] = "k2"
            elif p == "key-query":
                q["api_key"] = QUERY_KEY
            elif p == "key-cookie":
                c["sid"] = "k4"
            elif p == "hdr-extra":
                h["X-Extra"] = "e"
            elif p == "hdr-case":
                h["x-a"] = "plug"
            elif p == "oauth":
                h["Authorization"] = "Bearer oa"
            elif p == "oauth-refresh":
                h["Authorization"] = "Bearer " + "new-" * (k + 1) + "old"  # the callback is handed the current token every time
    elif bearer_token:
        h["Authorization"] = f"Bearer {bearer_token}"
    return h, q, c


_LOOP = [None]


def run_case(case):
    import httpx

    from pyopenapi_gen.core import http_transport as ht
    from pyopenapi_gen.core.auth import base as abase
    from pyopenapi_gen.core.auth import plugins as aplug

    if _LOOP[0] is None:
        _LOOP[0] = asyncio.new_event_loop()
    loop = _LOOP[0]
    captured = []

    def handler(request):
        captured.append(request)
        return httpx.Response(200, json={})

    real = httpx.AsyncClient
    mock = httpx.MockTransport(handler)

    class Patched(real):
        def __init__(self, *a, **kw):
            kw["transport"] = mock
            super().__init__(*a, **kw)

    found = []
    seen = set()
    nontriv = []
    wire = set()
    n = 0
    httpx.AsyncClient = Patched
    try:
        for seq in case["seqs"]:
            for defaults in ({}, {"X-A": "d"}, {"x-a": "d"}):
                # per-request header values as generated methods really pass them: plain str, a str-mixin Enum member (what the
                # generator emits for enum-typed header parameters; its wire form is the member's value) and an int
                for req_headers, req_expect in (({}, {}), ({"X-A": "r"}, {"X-A": "r"}), ({"X-A": _Mode.FAST, "X-N": 5}, {"X-A": "fast", "X-N": "5"})):
                    for caller in (False, True, "empty-dict", "empty-list", "zero"):
                        for bt in (None, "bt"):
                            wraps = ["composite"] if len(seq) != 1 else ["direct", "composite"]
                            # a CompositeAuth is itself a plugin: composites nested inside composites keep the flat composition order
                            # (quick: under the plain transport configuration; thorough: under every one)
                            if len(seq) >= 2 and (case.get("nested_everywhere") or (not defaults and bt is None)):
                                wraps = wraps + ["nested-tail", "nested-head"]
                            for wrap in wraps:
                                label = f"plugins={seq}|{wrap}|defaults={defaults}|request={req_expect if req_headers == req_expect else 'enum+int:' + str(req_expect)}|caller={caller}|bearer_token={bt}"
                                if not seq:
                                    auth = None
                                elif wrap == "direct":
                                    auth = make_plugin(seq[0], aplug)
                                elif wrap == "nested-tail":
                                    auth = abase.CompositeAuth(make_plugin(seq[0], aplug), abase.CompositeAuth(*[make_plugin(p, aplug) for p in seq[1:]]))
                                elif wrap == "nested-head":
                                    auth = abase.CompositeAuth(abase.CompositeAuth(*[make_plugin(p, aplug) for p in seq[:-1]]), make_plugin(seq[-1], aplug))
                                else:
                                    auth = abase.CompositeAuth(*[make_plugin(p, aplug) for p in seq])
                                tr = ht.HttpxTransport("http://h.test", auth=auth, bearer_token=bt, default_headers=dict(defaults) or None)
                                plans = [("r1", dict(req_headers), dict(req_expect)), ("r2", {"X-B": "r2"}, {"X-B": "r2"}), ("r3", {}, {})]
                                for k, (rname, rh_sent, rh) in enumerate(plans):
                                    kwargs = {}
                                    if rh_sent:
                                        kwargs["headers"] = dict(rh_sent)
                                    CALLER_JSON = {True: {"a": 1}, "empty-dict": {}, "empty-list": [], "zero": 0}
                                    if caller:
                                        kwargs["params"] = {"q": "1"}
                                        kwargs["json"] = CALLER_JSON[caller]
                                        if k == 0:
                                            kwargs["cookies"] = {"cart": "c-1"}   # a per-request cookie: on this request, never on a later one
                                    captured.clear()
                                    n += 1
                                    lab = f"{label}|{rname}"
                                    if seq or defaults or rh or bt:
                                        nontriv.append(lab)

                                    def add(clause, disc, detail, lab=lab, rname=rname):
                                        sig = f"C17|{clause}|{disc}" + ("" if rname == "r1" else " (later request on the same transport)")
                                        if (sig, lab) not in seen:
                                            seen.add((sig, lab))
                                            found.append({"sig": sig, "key": lab, "msg": f"{detail} | {lab}"})

                                    try:
                                        loop.run_until_complete(tr.request("POST", "/x", **kwargs))
                                    except Exception as e:
                                        add("request", f"transport raised {type(e).__name__}", str(e)[:200])
                                        continue
                                    if len(captured) != 1:
                                        add("request", f"{len(captured)} requests left the transport", "")
                                        continue
                                    r = captured[0]
                                    eh, eq, ec = reference(seq, defaults, rh, bt, k)
                                    sent = {}
                                    for hk, hv in r.headers.multi_items():
                                        sent.setdefault(hk.lower(), []).append(hv)
                                    for name, val in eh.items():
                                        vals = sent.get(name.lower(), [])
                                        flat = [x.strip() for v in vals for x in v.split(",")]
                                        variants = [hk for hk in eh if hk.lower() == name.lower()]
                                        top = variants[-1]
                                        # the value written last among the case variants has the highest precedence
                                        if name != top:
                                            continue
                                        if val not in vals and val not in flat:
                                            src = "auth plugin" if (name.lower() in ("authorization", "x-api-key", "x-extra") or (name == "x-a" and "hdr-case" in seq)) else \
                                                ("per-request header" if name in rh else "default header")
                                            add("header", f"{src} value not on the wire ({'case-variant names' if len(variants) > 1 else 'single name'})",
                                                f"{name}: expected {val!r}, sent {vals}")
                                        elif len(variants) == 1 and vals != [val]:
                                            add("header", "header sent with more than the expected value", f"{name}: {vals} expected [{val!r}]")
                                    # nothing from an earlier request may linger, and no credential may appear that the configuration does not call for
                                    for hname in ("x-a", "x-b", "x-n", "authorization", "x-api-key", "x-extra"):
                                        if hname in sent and not any(hk.lower() == hname for hk in eh):
                                            add("header", "a header nobody supplied for this request is on the wire" if hname.startswith("x-") and hname not in ("x-api-key", "x-extra")
                                                else "a credential header that the configuration does not call for is on the wire", f"{hname}: {sent[hname]}")
                                    want_cart = bool(caller) and k == 0
                                    has_cart = "cart=c-1" in sent.get("cookie", [""])[0]
                                    if want_cart and not has_cart:
                                        add("passthrough", "caller's per-request cookie not on the wire", f"cookie={sent.get('cookie')}")
                                    if has_cart and not want_cart:
                                        add("passthrough", "a cookie supplied for an earlier request is sent again", f"cookie={sent.get('cookie')}")
                                    wire.add("auth=" + ",".join(sent.get("authorization", ["-"])) + "|x-a=" + ",".join(sent.get("x-a", ["-"]))
                                             + "|x-api-key=" + ",".join(sent.get("x-api-key", ["-"])) + "|cookie=" + sent.get("cookie", ["-"])[0]
                                             + "|q=" + r.url.query.decode())
                                    qs = dict(r.url.params.multi_items())
                                    for qk, qv in eq.items():
                                        if qs.get(qk) != qv:
                                            add("api-key", "query-located API key not in the request URL", f"{qk} expected {qv!r}; query={qs}")
                                    cookie = sent.get("cookie", [""])[0]
                                    for ck, cv in ec.items():
                                        if f"{ck}={cv}" not in cookie:
                                            add("api-key", "cookie-located API key not in the Cookie header", f"{ck} expected {cv!r}; cookie={cookie!r}")
                                    if caller:
                                        if qs.get("q") != "1":
                                            add("passthrough", "caller's query parameters changed", f"query={qs}")
                                        try:
                                            body = json.loads(r.content)
                                        except Exception:
                                            body = None
                                        if body != CALLER_JSON[caller] or r.content == b"":
                                            add("passthrough", "caller's JSON body changed or dropped" + ("" if caller is True else " (empty / falsy JSON value)"),
                                                f"body={r.content[:80]!r} expected {CALLER_JSON[caller]!r}")
                                    else:
                                        extra = {qk: qv for qk, qv in qs.items() if qk not in eq}
                                        if extra:
                                            add("passthrough", "query parameters appear that nobody supplied", f"{extra}")
                                try:
                                    loop.run_until_complete(tr.close())
                                except Exception:
                                    pass
    finally:
        httpx.AsyncClient = real
    return {"findings": found, "evals": n, "nontrivial": nontriv, "nontrivial_multi": True,
            "outcome": "finding" if found else "ok", "outcomes": sorted(wire), "sample": {"first_sequence": case["seqs"][0], "sequences": len(case["seqs"]), "requests": n}}
