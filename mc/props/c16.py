"""C16 - the bundled converter obeys round-trip laws for any mapped dataclass; the convenience serialiser terminates on cyclic graphs.

(1) laws: every root dataclass whose field types are type trees of depth<=2 (thorough 3) over the supported leaves and
    List / dict[str,.] / Optional / nested dataclass, x 4 wire-key map variants, x the finite instance menu of the type:
    encode(decode(j)) == j, decode(encode(x)) == x, a wrong-typed / missing leaf is a ValueError naming the field.
    Each root type is exercised on a PRISTINE converter (the module source loaded under a fresh name).
(2) history (explicit-state, E3): every sequence of <=3 operations {structure(T_i, doc), unstructure(instance of T_i)} over 5 types
    on ONE converter; the result of the last operation must equal the result of the same single operation on a pristine converter.
(3) serialiser: every object graph over <=2 (thorough 3) dataclass/list/dict nodes incl. self loops and 2-cycles:
    DataclassSerializer.serialize returns (watchdog, RecursionError = violation), json.dumps-able, no None-valued keys.
"""
from __future__ import annotations

import dataclasses
import datetime
import enum
import importlib.util
import itertools
import json
import os
import sys
import typing
import uuid

from ..kernel import SRC, HarnessError

PID = "C16"
USES_GENERATOR = False
LEVEL = "model_checking"
RULE = ("laws: root dataclasses with 1 field of every type tree of depth<=2 (168) and 2 fields over T(1) x leaves, x 4 key-map variants {none, renamed, keyword-like, "
        "case-fold-colliding}, x instance menus (<=3 values per node), each on a pristine converter; history: all operation sequences of length<=3 over 12 "
        "operations (structure/unstructure of 6 types, two of which share one qualified name) on one converter vs a pristine one (state = set of types the converter has met); serialiser: all graphs "
        "over <=2 nodes (thorough 3) of kind dataclass/list/dict with slots in {None, 7, node}. non-trivial = distinct (type, key-map, instance) / histories / graphs")
ASSUMPTIONS = [
    "a pristine converter is obtained by executing src/pyopenapi_gen/core/cattrs_converter.py under a fresh module name",
    "field naming in errors: the message must contain the python name or the wire key of the nearest enclosing dataclass field",
    "wrong-typed leaves are only injected where cattrs does not coerce (int, float, datetime, date, Enum, nested dataclass); str/bool/bytes coercions are not demanded",
]
BOUND = {"quick": "672 one-field roots + 640 two-field roots + container chains of depth 3-4 over a key-mapped dataclass; 1884 histories; 2-node graphs; 108 recursive type cases (self / mutual cycles through list, dict, optional and direct edges x key map x which class is met first x decode- or encode-first)", "thorough": "depth-3 trees (2720 roots) ; 3-node graphs with one slot"}
CHUNK = 8


class Color(enum.Enum):
    RED = "red"
    BLUE = "blue"


UTC = datetime.timezone.utc
LEAVES = {
    "str": (str, [("a", "a"), ("é x", "é x"), ("", "")], None),   # the empty string is a value, not an absent one
    "int": (int, [(1, 1), (-2, -2)], "zz"),
    "float": (float, [(1.5, 1.5), (-0.25, -0.25)], "zz"),
    "bool": (bool, [(True, True), (False, False)], None),
    "bytes": (bytes, [("aGk=", b"hi"), ("", b""), ("+/+/++8=", b"\xfb\xff\xbf\xfb\xef")], None),
    "datetime": (datetime.datetime, [("2020-01-02T03:04:05+00:00", datetime.datetime(2020, 1, 2, 3, 4, 5, tzinfo=UTC)),
                                     ("2021-06-07T08:09:10+02:00", datetime.datetime(2021, 6, 7, 8, 9, 10, tzinfo=datetime.timezone(datetime.timedelta(hours=2)))),
                                     ("2020-01-02T03:04:05.123456+00:00", datetime.datetime(2020, 1, 2, 3, 4, 5, 123456, tzinfo=UTC))], "not-a-date"),
    "date": (datetime.date, [("2020-01-02", datetime.date(2020, 1, 2)), ("1999-12-31", datetime.date(1999, 12, 31))], "nope"),
    "enum": (Color, [("red", Color.RED), ("blue", Color.BLUE)], "purple"),
    "uuid": (uuid.UUID, [("123e4567-e89b-12d3-a456-426614174000", uuid.UUID("123e4567-e89b-12d3-a456-426614174000")),
                         ("00000000-0000-0000-0000-000000000000", uuid.UUID(int=0))], "not-a-uuid"),
    "time": (datetime.time, [("03:04:05", datetime.time(3, 4, 5)), ("23:59:59.500000", datetime.time(23, 59, 59, 500000))], "25:99"),
}
KEYMAPS = ["none", "renamed", "keyword", "casefold", "plain-underscore"]


def trees(depth):
    """type trees as nested tuples: ("leaf", name) | ("list", t) | ("dict", t) | ("opt", t) | ("dc", [t, ...])"""
    cur = [("leaf", n) for n in LEAVES]
    alltrees = list(cur)
    for _ in range(depth):
        nxt = []
        for t in alltrees:
            for c in ("list", "dict", "opt"):
                if c == "opt" and t[0] == "opt":
                    continue
                nxt.append((c, t))
            nxt.append(("dc", (t,)))
        alltrees = [("leaf", n) for n in LEAVES] + nxt
    return alltrees


def cases(tier, seed):
    out = []
    d = 2 if tier == "quick" else 3
    T = trees(d)
    for km in KEYMAPS:
        for t in T:
            out.append({"kind": "law", "fields": [t], "keymap": km})
    # container chains: a key-mapped dataclass under 3 and 4 stacked containers (every combination of list / dict / optional)
    if tier == "quick":
        for n in (3, 4):
            for chain in itertools.product(("list", "dict", "opt"), repeat=n):
                if any(a == "opt" and b == "opt" for a, b in zip(chain, chain[1:])):
                    continue
                for leaf in ("str", "datetime"):
                    t = ("dc", (("leaf", leaf),))
                    for c in reversed(chain):
                        t = (c, t)
                    for km in ("renamed", "none"):
                        out.append({"kind": "law", "fields": [t], "keymap": km})
    T1 = trees(1)
    leaves = [("leaf", n) for n in LEAVES]
    for km in (("renamed", "casefold") if tier == "quick" else KEYMAPS):
        for t1 in T1:
            for t2 in leaves:
                out.append({"kind": "law", "fields": [t1, t2], "keymap": km})
    ops = list(range(12))
    for k in (1, 2, 3):
        for seq in itertools.product(ops, repeat=k):
            out.append({"kind": "history", "seq": list(seq)})
    for g in graphs(2, 2):
        out.append({"kind": "graph", "graph": g})
    out += rec_cases()
    if tier != "quick":
        for g in graphs(3, 1):
            out.append({"kind": "graph", "graph": g})
    # JSON round trip of tuples -> lists: normalise
    return json.loads(json.dumps(out))


# ----------------------------------------------------------------------------------------------
# pristine converter
# ----------------------------------------------------------------------------------------------
_N = [0]
CONV_PATH = os.path.join(SRC, "pyopenapi_gen", "core", "cattrs_converter.py")


def pristine():
    _N[0] += 1
    name = f"_verif_conv_{os.getpid()}_{_N[0]}"
    spec = importlib.util.spec_from_file_location(name, CONV_PATH)
    mod = importlib.util.module_from_spec(spec)
    sys.modules[name] = mod
    try:
        spec.loader.exec_module(mod)
    finally:
        sys.modules.pop(name, None)
    return mod


# ----------------------------------------------------------------------------------------------
# dynamic types
# ----------------------------------------------------------------------------------------------
WIRE = {
    "none": lambda i: f"f{i}",
    "renamed": lambda i: ["fieldOne", "field-two", "Field Three"][i % 3],
    "keyword": lambda i: ["class", "id", "from"][i % 3],
    "casefold": lambda i: ["userName", "username", "USERNAME"][i % 3],
    # NO key map at all, field names that look like sanitised keywords: the wire key is the field name, underscore included
    "plain-underscore": lambda i: ["id_", "type_", "class_"][i % 3],
}
FIELD_NAMES = {"plain-underscore": lambda i: ["id_", "type_", "class_"][i % 3]}
_DC_COUNT = [0]


def make_dc(field_types, keymap):
    _DC_COUNT[0] += 1
    names = [FIELD_NAMES.get(keymap, lambda i: f"f{i}")(i) for i in range(len(field_types))]
    cls = dataclasses.make_dataclass(f"Dyn{_DC_COUNT[0]}", [(n, t) for n, t in zip(names, field_types)])
    cls.__verif_names__ = names
    if keymap not in ("none", "plain-underscore"):
        load = {WIRE[keymap](i): n for i, n in enumerate(names)}
        meta = type("Meta", (), {"key_transform_with_load": load, "key_transform_with_dump": {v: k for k, v in load.items()}})
        cls.Meta = meta
    cls.__verif_wire__ = {n: WIRE[keymap](i) for i, n in enumerate(names)}
    return cls


def realise(t, keymap):
    """tree -> (python type, [(json, value)] menu (<=3), [(bad json, field-name-candidates)])"""
    kind = t[0]
    if kind == "leaf":
        ty, menu, bad = LEAVES[t[1]]
        return ty, list(menu), ([(bad, None)] if bad is not None else [])
    if kind in ("list", "dict", "opt"):
        ity, imenu, ibad = realise(t[1], keymap)
        # the LAST menu entry of every container nests the last (richest) entry of its element type, so that a value of the
        # innermost type is present however deep the chain is
        first, rich = imenu[0], imenu[-1]
        if kind == "list":
            menu = [([], []), ([rich[0]], [rich[1]])] + ([([first[0], rich[0]], [first[1], rich[1]])] if len(imenu) > 1 else [])
            return typing.List[ity], menu[:3], [([b], n) for b, n in ibad]
        if kind == "dict":
            menu = [({}, {}), ({"k": first[0]}, {"k": first[1]})] + ([({"k": first[0], "l": rich[0]}, {"k": first[1], "l": rich[1]})] if len(imenu) > 1 else [])
            return typing.Dict[str, ity], menu[:3], [({"k": b}, n) for b, n in ibad]
        menu = [(None, None), first] + ([rich] if len(imenu) > 1 else [])
        return typing.Optional[ity], menu[:3], list(ibad)
    if kind == "dc":
        parts = [realise(x, keymap) for x in t[1]]
        cls = make_dc([p[0] for p in parts], keymap)
        wire = cls.__verif_wire__
        names = cls.__verif_names__
        menu = []
        width = max(len(p[1]) for p in parts)
        for k in range(min(width, 3)):
            j, kw = {}, {}
            for n, p in zip(names, parts):
                jj, vv = p[1][k % len(p[1])]
                j[wire[n]] = jj
                kw[n] = vv
            menu.append((j, cls(**kw)))
        bad = []
        for n, p in zip(names, parts):
            base_j = dict(menu[0][0])
            for b, inner in p[2]:
                jj = dict(base_j)
                jj[wire[n]] = b
                bad.append((jj, inner or (n, wire[n])))
            missing = dict(base_j)
            missing.pop(wire[n])
            if typing.get_origin(p[0]) is not typing.Union:  # Optional fields without default are still required by the dataclass
                bad.append((missing, (n, wire[n])))
        return cls, menu, bad
    raise HarnessError(f"bad tree {t}")


def tree_str(t):
    if t[0] == "leaf":
        return t[1]
    if t[0] == "dc":
        return "DC{" + ",".join(tree_str(x) for x in t[1]) + "}"
    return f"{t[0]}[{tree_str(t[1])}]"


def tup(t):
    if isinstance(t, list):
        return tuple(tup(x) for x in t)
    return t


def norm_json(j):
    return json.loads(json.dumps(j, sort_keys=True, default=str))


def leaf_class(t):
    """context for signatures: the set of leaf/container kinds in the tree"""
    if t[0] == "leaf":
        return {t[1]}
    if t[0] == "dc":
        s = {"dc"}
        for x in t[1]:
            s |= leaf_class(x)
        return s
    return {t[0]} | leaf_class(t[1])


# ----------------------------------------------------------------------------------------------
def run_law(case):
    ftrees = [tup(t) for t in case["fields"]]
    km = case["keymap"]
    root_tree = ("dc", tuple(ftrees))
    label = f"root {tree_str(root_tree)} keymap={km}"
    conv = pristine()
    cls, menu, bad = realise(root_tree, km)
    found = []
    seen = set()
    n = 0
    nontriv = []

    def add(clause, disc, detail):
        sig = f"C16|{clause}|{disc}"
        if sig not in seen:
            seen.add(sig)
            found.append({"sig": sig, "key": label, "msg": f"{detail} | {label}"})

    ctx = "+".join(sorted(set().union(*[leaf_class(t) for t in ftrees])))
    for j, v in menu:
        n += 1
        nontriv.append(f"{label}|{json.dumps(j, sort_keys=True, default=str)[:120]}")
        try:
            obj = conv.structure_from_dict(j, cls)
        except Exception as e:
            add("decode", f"conforming JSON rejected [{ctx}; keymap {km}]: {type(e).__name__}", f"{json.dumps(j)[:150]}: {str(e)[:200]}")
            continue
        if obj != v:
            add("decode", f"decoded instance differs from the expected instance [{ctx}; keymap {km}]", f"{json.dumps(j)[:120]} -> {obj!r:.200} expected {v!r:.200}")
        try:
            back = conv.unstructure_to_dict(obj)
            if norm_json(back) != norm_json(j):
                add("law", f"encode(decode(j)) != j [{ctx}; keymap {km}]", f"{json.dumps(j)[:150]} came back as {json.dumps(norm_json(back))[:200]}")
        except Exception as e:
            add("encode", f"instance cannot be encoded [{ctx}; keymap {km}]: {type(e).__name__}", f"{obj!r:.150}: {str(e)[:200]}")
        # decode(encode(x)) == x from the instance side
        try:
            enc = conv.unstructure_to_dict(v)
            dec = conv.structure_from_dict(enc, cls)
            if dec != v:
                add("law", f"decode(encode(x)) != x [{ctx}; keymap {km}]", f"{v!r:.150} -> {json.dumps(norm_json(enc))[:150]} -> {dec!r:.150}")
        except Exception as e:
            add("law", f"decode(encode(x)) raised [{ctx}; keymap {km}]: {type(e).__name__}", f"{v!r:.150}: {str(e)[:200]}")
    for bj, names in bad:
        n += 1
        try:
            conv.structure_from_dict(bj, cls)
            add("failure", f"non-conforming JSON accepted [{ctx}]", f"{json.dumps(bj)[:150]}")
        except ValueError as e:
            msg = str(e)
            if names and not any(nm in msg for nm in names):
                add("failure", f"ValueError does not name the offending field [{ctx}; keymap {km}]", f"{json.dumps(bj)[:120]}: expected one of {names} in {msg[:200]!r}")
        except Exception as e:
            add("failure", f"decoding failure reported as {type(e).__name__} instead of ValueError [{ctx}]", f"{json.dumps(bj)[:120]}: {str(e)[:150]}")
    return {"findings": found, "evals": n, "nontrivial": nontriv, "nontrivial_multi": True, "states": 1, "transitions": n, "validated": n,
            "outcome": "law:" + ("finding" if found else "ok"), "sample": {"root": label, "instances": len(menu), "bad_inputs": len(bad)}}


# ----------------------------------------------------------------------------------------------
# history
# ----------------------------------------------------------------------------------------------
def history_types(conv):
    """5 types built fresh for every converter (so that identity-keyed hooks do not leak between converters); built with
    make_dataclass from real type objects (this module uses postponed annotations)"""
    mk = dataclasses.make_dataclass
    F = dataclasses.field

    def meta(cls, load):
        cls.Meta = type("Meta", (), {"key_transform_with_load": load, "key_transform_with_dump": {v: k for k, v in load.items()}})
        return cls

    Inner = meta(mk("Inner", [("page_size", int)]), {"pageSize": "page_size"})
    Outer = mk("Outer", [("inner", Inner), ("items", typing.List[Inner], F(default_factory=list))])
    Wrapper = mk("Wrapper", [("_data", typing.Dict[str, Inner], F(default_factory=dict))])

    def s_wrapper(data, _):
        return Wrapper(_data={k: conv.converter.structure(v, Inner) for k, v in data.items()})

    def u_wrapper(inst):
        return {k: conv.converter.unstructure(v) for k, v in inst._data.items()}

    Other = mk("Other", [("name", str)])
    HasUnion = mk("HasUnion", [("u", typing.Union[Inner, Other])])
    Renamed = meta(mk("Renamed", [("class_", str), ("when", typing.Optional[datetime.datetime], F(default=None))]), {"class": "class_", "When": "when"})
    MapHolder = mk("MapHolder", [("m", Wrapper)])
    # a DIFFERENT type that happens to have the same module and qualified name as Inner (regenerated / reloaded models module)
    InnerV2 = meta(mk("Inner", [("page_size", int), ("total", int, F(default=0))]), {"page-size": "page_size", "Total": "total"})
    assert InnerV2 is not Inner and InnerV2.__qualname__ == Inner.__qualname__
    types = [
        (Outer, {"inner": {"pageSize": 1}, "items": [{"pageSize": 2}]}, Outer(Inner(1), [Inner(2)])),
        (MapHolder, {"m": {"k": {"pageSize": 3}}}, MapHolder(Wrapper({"k": Inner(3)}))),
        (HasUnion, {"u": {"pageSize": 4}}, HasUnion(Inner(4))),
        (Renamed, {"class": "c", "When": "2020-01-02T03:04:05+00:00"}, Renamed("c", datetime.datetime(2020, 1, 2, 3, 4, 5, tzinfo=UTC))),
        (Inner, {"pageSize": 5}, Inner(5)),
        (InnerV2, {"page-size": 6, "Total": 7}, InnerV2(6, 7)),
    ]
    return types, (Wrapper, s_wrapper, u_wrapper)


def apply_op(conv, types, op):
    cls, doc, inst = types[op // 2]
    try:
        if op % 2 == 0:
            r = conv.structure_from_dict(doc, cls)
            return ("ok", repr(r))
        r = conv.unstructure_to_dict(inst)
        return ("ok", json.dumps(norm_json(r), sort_keys=True))
    except Exception as e:
        return ("raise", f"{type(e).__name__}: {str(e)[:120]}")


OPNAMES = ["structure(Outer)", "unstructure(Outer)", "structure(MapHolder)", "unstructure(MapHolder)", "structure(HasUnion)", "unstructure(HasUnion)",
           "structure(Renamed)", "unstructure(Renamed)", "structure(Inner)", "unstructure(Inner)", "structure(Inner')", "unstructure(Inner')"]


def run_history(case):
    seq = case["seq"]
    conv = pristine()
    types, (W, sw, uw) = history_types(conv)
    conv.converter.register_structure_hook(W, sw)
    conv.converter.register_unstructure_hook(W, uw)
    res = None
    for op in seq:
        res = apply_op(conv, types, op)
    ref = pristine()
    rtypes, (W2, sw2, uw2) = history_types(ref)
    ref.converter.register_structure_hook(W2, sw2)
    ref.converter.register_unstructure_hook(W2, uw2)
    want = apply_op(ref, rtypes, seq[-1])
    label = " ; ".join(OPNAMES[o] for o in seq)
    found = []
    if res != want:
        found.append({"sig": f"C16|history|result of {OPNAMES[seq[-1]]} depends on what the converter saw before", "key": label,
                      "msg": f"after [{label}] got {res} but a pristine converter gives {want}"})
    if want[0] == "raise":
        found.append({"sig": f"C16|history-base|{OPNAMES[seq[-1]]} fails even on a pristine converter: {want[1][:60]}", "key": OPNAMES[seq[-1]], "msg": want[1]})
    state = tuple(sorted({o // 2 * 2 + o % 2 for o in seq}))
    return {"findings": found, "evals": len(seq) + 1, "nontrivial": label, "states": 1, "state_key": repr(state), "transitions": len(seq), "validated": len(seq),
            "outcome": "history:" + ("differs" if found else "same"), "sample": {"history": label}}


# ----------------------------------------------------------------------------------------------
# serialiser on cyclic graphs
# ----------------------------------------------------------------------------------------------
def graphs(n, slots):
    out = []
    vals = ["none", "leaf"] + [f"n{i}" for i in range(n)]
    for kinds in itertools.product(["dc", "dclocal", "list", "dict"], repeat=n):
        for edges in itertools.product(itertools.product(vals, repeat=slots), repeat=n):
            out.append({"kinds": list(kinds), "edges": [list(e) for e in edges]})
    return out


@dataclasses.dataclass
class GNode:
    a: typing.Any = None
    b: typing.Any = None


def run_graph(case):
    from pyopenapi_gen.core.utils import DataclassSerializer

    g = case["graph"]
    nodes = []

    def local_node():
        # a dataclass whose annotations contain an unresolvable forward reference (the way recursive models are written in local
        # scopes / tests): type hints cannot be resolved, so cattrs does not walk into nested instances on its own
        cls = dataclasses.make_dataclass("LNode", [("a", typing.Optional["LNode"], dataclasses.field(default=None)),
                                                   ("b", typing.Optional["LNode"], dataclasses.field(default=None))])
        return cls()

    for k in g["kinds"]:
        nodes.append(GNode() if k == "dc" else (local_node() if k == "dclocal" else ([] if k == "list" else {})))

    def val(s):
        if s == "none":
            return None
        if s == "leaf":
            return 7
        return nodes[int(s[1:])]

    cyc = False
    for i, (k, es) in enumerate(zip(g["kinds"], g["edges"])):
        for j, e in enumerate(es):
            v = val(e)
            if k in ("dc", "dclocal"):
                setattr(nodes[i], "ab"[j % 2], v)
            elif k == "list":
                nodes[i].append(v)
            else:
                nodes[i][f"k{j}"] = v
    label = json.dumps(g)
    # reference cycle?
    adj = {i: [int(e[1:]) for e in es if e[0] == "n" and e[1:].isdigit()] for i, es in enumerate(g["edges"])}

    def reach(a, b, seen=()):
        return any(x == b or (x not in seen and reach(x, b, seen + (x,))) for x in adj[a])

    cyc = any(reach(i, i) for i in adj)
    shape = ("cyclic" if cyc else "acyclic") + ":" + "+".join(sorted(set(g["kinds"])))
    found = []
    try:
        out = DataclassSerializer.serialize(nodes[0])
        try:
            json.dumps(out)
        except (TypeError, ValueError) as e:
            found.append({"sig": f"C16|serialiser|result is not JSON-serialisable [{shape}]", "key": label, "msg": f"{e} | {label}"})

        def none_keys(o, depth=0):
            if depth > 50:
                return False
            if isinstance(o, dict):
                return any(v is None or none_keys(v, depth + 1) for v in o.values())
            if isinstance(o, list):
                return any(none_keys(v, depth + 1) for v in o)
            return False

        if not found and none_keys(out):
            found.append({"sig": f"C16|serialiser|result has a null-valued key [{shape}]", "key": label, "msg": f"{json.dumps(out)[:200]} | {label}"})
    except RecursionError:
        found.append({"sig": f"C16|serialiser|RecursionError on an object graph [{shape}]", "key": label, "msg": label})
    except Exception as e:
        found.append({"sig": f"C16|serialiser|raised {type(e).__name__} [{shape}]", "key": label, "msg": f"{str(e)[:200]} | {label}"})
    return {"findings": found, "nontrivial": label if cyc else None, "states": 1, "transitions": 1, "validated": 1,
            "outcome": "graph:" + shape.split(":")[0] + (":finding" if found else ":ok"), "sample": {"graph": g}}


# ----------------------------------------------------------------------------------------------
# recursive types: dataclasses that refer to themselves / to one another (written as source text, the way generated models are)
# ----------------------------------------------------------------------------------------------
REC_EDGE = {"direct": "{T}", "list": "List[{T}]", "dict": "Dict[str, {T}]", "opt": "Optional[{T}]"}
REC_DEFAULT = {"direct": "", "list": " = field(default_factory=list)", "dict": " = field(default_factory=dict)", "opt": " = None"}


def rec_shapes():
    out = []
    for e in ("list", "dict", "opt"):
        out.append({"shape": "self", "fwd": e, "back": e})
    for fwd in ("direct", "list", "dict", "opt"):
        for back in ("list", "dict", "opt"):
            out.append({"shape": "mutual", "fwd": fwd, "back": back})
    return out


def rec_cases():
    out = []
    for sh in rec_shapes():
        for km in ("renamed", "none"):
            for first in ("A", "B") if sh["shape"] == "mutual" else ("A",):
                for order in ("decode-first", "encode-first"):
                    out.append(dict(sh, kind="recursive", keymap=km, first=first, order=order))
    return out


def rec_module(case):
    """source text of the two classes -> fresh module (registered in sys.modules so that the annotations resolve)"""
    import types as _types

    _DC_COUNT[0] += 1
    name = f"_verif_rec_{os.getpid()}_{_DC_COUNT[0]}"
    ren = case["keymap"] == "renamed"

    def meta(pairs):
        if not ren:
            return ""
        load = {w: n for n, w in pairs}
        return f"\n    class Meta:\n        key_transform_with_load = {load!r}\n        key_transform_with_dump = {dict((n, w) for n, w in pairs)!r}\n"

    if case["shape"] == "self":
        src = ("from __future__ import annotations\nfrom dataclasses import dataclass, field\nfrom typing import Dict, List, Optional\n\n"
               f"@dataclass\nclass A:\n    node_id: str\n    kids: {REC_EDGE[case['fwd']].format(T='A')}{REC_DEFAULT[case['fwd']]}\n"
               + meta([("node_id", "nodeId"), ("kids", "Kids")]))
    else:
        src = ("from __future__ import annotations\nfrom dataclasses import dataclass, field\nfrom typing import Dict, List, Optional\n\n"
               f"@dataclass\nclass A:\n    folder_id: str\n    entries: {REC_EDGE[case['fwd']].format(T='B')}{REC_DEFAULT[case['fwd']]}\n"
               + meta([("folder_id", "folderId"), ("entries", "Entries")])
               + f"\n@dataclass\nclass B:\n    entry_id: str\n    sub_folders: {REC_EDGE[case['back']].format(T='A')}{REC_DEFAULT[case['back']]}\n"
               + meta([("entry_id", "entryId"), ("sub_folders", "subFolders")]))
    mod = _types.ModuleType(name)
    sys.modules[name] = mod
    exec(compile(src, name, "exec"), mod.__dict__)
    return mod, src


def rec_values(case, mod):
    """(json, instance) pairs that descend three levels through the cycle, for each root class"""
    ren = case["keymap"] == "renamed"

    def wrapj(edge, j):
        return {"direct": j, "list": [j], "dict": {"k": j}, "opt": j}[edge]

    def emptyj(edge):
        return {"list": [], "dict": {}, "opt": None}[edge]

    if case["shape"] == "self":
        A = mod.A
        k_id, k_kids = ("nodeId", "Kids") if ren else ("node_id", "kids")
        e = case["fwd"]
        leaf_j, leaf_v = {k_id: "n3", k_kids: emptyj(e)}, A("n3", emptyj(e))
        mid_j, mid_v = {k_id: "n2", k_kids: wrapj(e, leaf_j)}, A("n2", wrapj(e, leaf_v))
        top_j, top_v = {k_id: "n1", k_kids: wrapj(e, mid_j)}, A("n1", wrapj(e, mid_v))
        return {"A": [(top_j, top_v), (leaf_j, leaf_v)]}
    A, B = mod.A, mod.B
    ka, kae = ("folderId", "Entries") if ren else ("folder_id", "entries")
    kb, kbs = ("entryId", "subFolders") if ren else ("entry_id", "sub_folders")
    f, b = case["fwd"], case["back"]
    b_leaf_j, b_leaf_v = {kb: "e2", kbs: emptyj(b)}, B("e2", emptyj(b))
    a_inner_j, a_inner_v = {ka: "f2", kae: wrapj(f, b_leaf_j)}, A("f2", wrapj(f, b_leaf_v))
    b_mid_j, b_mid_v = {kb: "e1", kbs: wrapj(b, a_inner_j)}, B("e1", wrapj(b, a_inner_v))
    a_top_j, a_top_v = {ka: "f1", kae: wrapj(f, b_mid_j)}, A("f1", wrapj(f, b_mid_v))
    return {"A": [(a_top_j, a_top_v)], "B": [(b_mid_j, b_mid_v), (b_leaf_j, b_leaf_v)]}


def run_recursive(case):
    label = f"recursive {case['shape']} fwd={case['fwd']} back={case['back']} keymap={case['keymap']} first={case['first']} {case['order']}"
    conv = pristine()
    mod, src = rec_module(case)
    found, seen, nontriv = [], set(), []
    n = 0
    ctx = f"{case['shape']} cycle, back edge {case['back']}; keymap {case['keymap']}"

    def add(clause, disc, detail):
        sig = f"C16|{clause}|{disc}"
        if sig not in seen:
            seen.add(sig)
            found.append({"sig": sig, "key": label, "msg": f"{detail} | {label}"})

    try:
        vals = rec_values(case, mod)
        roots = [case["first"]] + [r for r in vals if r != case["first"]]
        for r in roots:
            cls = getattr(mod, r)
            for j, v in vals.get(r, []):
                n += 1
                nontriv.append(f"{label}|{r}|{json.dumps(j, sort_keys=True)[:120]}")
                steps = ("dec", "enc") if case["order"] == "decode-first" else ("enc", "dec")
                for st in steps:
                    try:
                        if st == "dec":
                            obj = conv.structure_from_dict(j, cls)
                            if obj != v:
                                add("decode", f"decoded instance differs from the expected instance [{ctx}]", f"{json.dumps(j)[:160]} -> {obj!r:.200}")
                            back = conv.unstructure_to_dict(obj)
                            if norm_json(back) != norm_json(j):
                                add("law", f"encode(decode(j)) != j [{ctx}]", f"{json.dumps(j)[:160]} came back as {json.dumps(norm_json(back))[:200]}")
                        else:
                            enc = conv.unstructure_to_dict(v)
                            if norm_json(enc) != norm_json(j):
                                add("law", f"encode(x) differs from the wire form [{ctx}]", f"{v!r:.150} -> {json.dumps(norm_json(enc))[:200]} expected {json.dumps(j)[:160]}")
                            dec = conv.structure_from_dict(enc, cls)
                            if dec != v:
                                add("law", f"decode(encode(x)) != x [{ctx}]", f"{v!r:.150} -> {dec!r:.150}")
                    except Exception as e:
                        add("decode" if st == "dec" else "encode", f"{'conforming JSON rejected' if st == 'dec' else 'instance cannot be encoded'} [{ctx}]: {type(e).__name__}",
                            f"{json.dumps(j)[:150]}: {str(e)[:200]}")
    finally:
        sys.modules.pop(mod.__name__, None)
    return {"findings": found, "evals": n, "nontrivial": nontriv, "nontrivial_multi": True, "states": 1, "transitions": n, "validated": n,
            "outcome": "recursive:" + ("finding" if found else "ok"), "sample": {"types": label, "source": src[-300:]}}


def run_case(case):
    if case["kind"] == "law":
        return run_law(case)
    if case["kind"] == "recursive":
        return run_recursive(case)
    if case["kind"] == "history":
        return run_history(case)
    if case["kind"] == "graph":
        return run_graph(case)
    raise HarnessError("unknown kind")


def finalize(cases, results, tier, seed):
    states = {r.get("state_key") for r in results if r.get("state_key")}
    return {"history_states_distinct": len(states), "histories": sum(1 for c in cases if c["kind"] == "history")}
