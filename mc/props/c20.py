"""C20 - name derivation is total, valid and collision-safe.

Layer A (functions): every string of length <= K over a 11-symbol alphabet, plus every Python keyword /
soft keyword / True False None self cls in three casings, through each derivation function; oracle:
str.isidentifier() and not keyword.

Layer B (namespaces, real generation path): every unordered pair of short strings that *collides* after
derivation (and the triples x, y, y' where y' is the name the de-collision would invent) is placed in each
namespace the statement lists - two properties of one schema, two parameters of one operation, two schemas,
two enum members, two operations of one client - through the real generator, and the emitted code is read
back through `ast`: identifiers must be valid, pairwise distinct, and both originals must survive (wire key
/ enum value / operation still present).
"""
from __future__ import annotations

import ast
import itertools
import keyword
import os

from .. import sandbox
from ..kernel import HarnessError

PID = "C20"
LEVEL = "exploration"
RULE = ("layer A: all strings of length<=K over {a,B,1,_,-,space,$,é,名,²(alnum, not identifier char),٣(non-ASCII digit)} + keyword table through each name-derivation "
        "function (batched); layer B: all colliding pairs / invented-suffix triples of short strings placed in each "
        "namespace (properties, parameters, schemas, enum members, operationIds of one client - untagged and under several spellings of one tag -, and "
        "tag spellings that derive the same module name) through the real generator. non-trivial = distinct (function, input) whose output differs from the "
        "input, resp. distinct colliding tuples per namespace")
ASSUMPTIONS = [
    "identifier validity is judged by str.isidentifier() and keyword.iskeyword() of the running CPython 3.12",
    "layer B reads the emitted code through ast instead of importing it (import failures are C01's subject)",
    "tag spelling variants that normalise to one key are merged into one client by design; the tags namespace only demands that every OPERATION "
    "stays on some client and that module/class/attribute names are valid and consistent in number",
]
BOUND = {"quick": "strings<=4 symbols (16105) + keyword table; namespace tuples from strings<=2 in 9 namespaces + 141 documents whose method names the generator derives itself (separator-variant paths, FastAPI ids, two-tag layouts; per naming strategy) + 16 invented-name cases + long names (60-180 shared characters)",
         "thorough": "strings<=5 symbols (177156) + keyword table; namespace tuples from strings<=3"}

ALPHA = ["a", "B", "1", "_", "-", " ", "$", "é", "名", "²", "٣"]
FUNCS = ["sanitize_class_name", "sanitize_module_name", "sanitize_method_name", "sanitize_tag_class_name",
         "sanitize_tag_attr_name", "sanitize_filename", "enum_str_member", "enum_int_member"]


def kw_table():
    base = list(keyword.kwlist) + list(keyword.softkwlist) + ["self", "cls", "True", "False", "None"]
    out = []
    for w in base:
        for v in (w, w.lower(), w.upper(), w.capitalize()):
            if v not in out:
                out.append(v)
    return out


def strings_upto(k):
    out = [""]
    for n in range(1, k + 1):
        out.extend("".join(t) for t in itertools.product(ALPHA, repeat=n))
    return out


def ident_ok(s):
    return isinstance(s, str) and s.isidentifier() and not keyword.iskeyword(s)


def classify_bad(s):
    if not isinstance(s, str):
        return "not-a-string"
    if s == "":
        return "empty"
    if keyword.iskeyword(s):
        return "keyword"
    return "not-identifier"


def _derive(fn, s):
    from pyopenapi_gen.core.utils import NameSanitizer

    if fn == "enum_str_member":
        from pyopenapi_gen.visit.model.enum_generator import EnumGenerator

        g = EnumGenerator.__new__(EnumGenerator)
        return g._generate_member_name_for_string_enum(s)
    if fn == "enum_int_member":
        from pyopenapi_gen.visit.model.enum_generator import EnumGenerator

        g = EnumGenerator.__new__(EnumGenerator)
        return g._generate_member_name_for_integer_enum(s, 7)
    if fn == "sanitize_filename":
        r = NameSanitizer.sanitize_filename(s)
        if not r.endswith(".py"):
            return r
        return r[:-3]
    return getattr(NameSanitizer, fn)(s)


# ----------------------------------------------------------------------------------------------
# case enumeration
# ----------------------------------------------------------------------------------------------
def colliding_tuples(strings, derive):
    """all unordered pairs x<y (in enumeration order) with derive(x)==derive(y), plus triples (x,y,y')"""
    groups = {}
    for s in strings:
        try:
            d = derive(s)
        except Exception:
            continue
        groups.setdefault(d, []).append(s)
    tuples = []
    for d, members in groups.items():
        if len(members) < 2:
            continue
        for x, y in itertools.combinations(members, 2):
            tuples.append([x, y])
    return tuples


def cases(tier, seed):
    k = 4 if tier == "quick" else 5
    strs = strings_upto(k) + kw_table()
    out = []
    B = 400
    for i in range(0, len(strs), B):
        out.append({"kind": "fn", "strings": strs[i:i + B]})
    # namespace layer
    extras = ["class", "Class", "CLASS", "id", "Id", "type", "date", "field", "None", "none",
              "userName", "user_name", "user-name", "UserName", "a_2", "a_1", "A_1", "A2", "a2"]

    def over(alpha, k):
        o = []
        for n in range(1, k + 1):
            o.extend("".join(t) for t in itertools.product(alpha, repeat=n))
        return o

    small = ["a", "B", "1", "_", "-", "$", "é", "²"]
    if tier == "quick":
        pools = {ns: over(small, 2) + extras for ns in ("props", "params", "schemas", "enum", "opids")}
    else:
        pools = {"props": over(ALPHA, 2) + over(small[:6], 3) + extras, "enum": over(ALPHA, 2) + over(small[:6], 3) + extras,
                 "params": over(ALPHA, 2) + extras, "schemas": over(ALPHA, 2) + extras, "opids": over(ALPHA, 2) + extras}
    pools["opids-tagged"] = pools["opids"] if tier != "quick" else over(["a", "B", "_", "-"], 2) + ["getUser", "get_user", "GetUser", "get-user"]
    pools["tags"] = (over(["a", "B", "1", "_", "-", ".", "/", " "], 2 if tier == "quick" else 3)
                     + ["user.profile", "user-profile", "user profile", "User/Profile", "user:profile", "userProfile", "user_profile", "UserProfile"] + extras)
    # long names that agree in their first N characters and differ only at the very end (N = 60, 100, 128, 180): no derived name may be cut short
    stem = "".join(w.capitalize() for w in ("tenant organisation workspace project environment deployment pipeline stage step artefact annotation revision history "
                                            "snapshot comparison request envelope payload wrapper container element attribute descriptor").split())
    for n in (60, 100, 128, 180):
        out.append({"kind": "ns", "ns": "schemas", "names": [stem[:n] + "BodyPut", stem[:n] + "BodyPatch"]})
        out.append({"kind": "ns", "ns": "opids", "names": [stem[:n] + "BodyPut", stem[:n] + "BodyPatch"]})
        out.append({"kind": "ns", "ns": "props", "names": [stem[:n] + "BodyPut", stem[:n] + "BodyPatch"]})
    # names the generator INVENTS for inline schemas: the same local name under two different owners must give two classes
    for owner in INVENTED_OWNERS:
        for same in (False, True):
            out.append({"kind": "ns", "ns": "invented", "names": [owner, "same-values" if same else "different-values"]})
    for spec in derived_specs():
        out.append({"kind": "ns", "ns": "opids-derived", "names": spec})
    for ns in ("props", "params", "schemas", "enum", "opids", "opids-tagged", "tags"):
        seen = set()
        pool = [s for s in pools[ns] if not (s in seen or seen.add(s))]
        for names in expand_plan({"ns": ns, "strings": pool}):
            out.append({"kind": "ns", "ns": ns, "names": names})
    return out


def derived_specs():
    """method names the generator DERIVES itself or places into several clients. Each entry is a list [mode, ...]:
    ["paths", strategy, segA, segB]      two GET operations without operationId on /segA and /segB (segments differ only in separators / case)
    ["fastapi", strategy, idA, idB]      two operations whose FastAPI-style ids clean to one name (paths /details/details, /details/items ...)
    ["multitag", idA, idB, layout]       idA carries two tags, idB shares one of them (every order / subset layout)"""
    out = []
    segs = ["user-data", "user_data", "user.data", "userData", "UserData", "userdata"]
    for strat in ("operationId", "path", "clean"):
        for a, b in itertools.combinations(segs, 2):
            out.append(["paths", strat, a, b])
        for a, b in (("create_details_details_post", "create_details_items_post"), ("read_item_items__item_id__get", "read_item_things__item_id__get"),
                     ("list_users_users_get", "list_users_admin_users_get"), ("get_x_api_v1_x_get", "get_x_api_v2_x_get")):
            out.append(["fastapi", strat, a, b])
    ids = ["get_user", "getUser", "GetUser", "get-user"]
    for a, b in itertools.permutations(ids, 2):
        for layout in ("UA|A", "UA|U", "AU|A", "AU|U", "UA|AU", "UA|UA", "U|A"):
            out.append(["multitag", a, b, layout])
    return out


def derived_doc(spec):
    resp = {"204": {"description": "d"}}
    mode = spec[0]
    if mode == "paths":
        _, strat, a, b = spec
        paths = {f"/{a}": {"get": {"responses": resp}}, f"/{b}": {"get": {"responses": resp}}}
        return sandbox.base_doc(None, paths), strat, {"default": [f"/{a}", f"/{b}"]}
    if mode == "fastapi":
        _, strat, a, b = spec

        def route(i):   # the route FastAPI would have generated this id from: <name>_<route>_<method>
            import re

            m = re.match(r"^[a-z]+_[a-z]+_(.*)_(get|post)$", i)
            r = "/" + m.group(1).replace("__item_id__", "/{item_id}").replace("_", "/")
            return r.replace("//", "/"), m.group(2)

        (ra, ma), (rb, mb) = route(a), route(b)

        def opobj(i, r):
            o = {"operationId": i, "responses": resp}
            if "{item_id}" in r:
                o["parameters"] = [{"name": "item_id", "in": "path", "required": True, "schema": {"type": "string"}}]
            return o

        paths = {ra: {ma: opobj(a, ra)}}
        paths.setdefault(rb, {})[mb] = opobj(b, rb)
        return sandbox.base_doc(None, paths), strat, {"default": [ra, rb]}
    _, a, b, layout = spec
    tagsets = [[{"U": "Users", "A": "Admin"}[c] for c in part] for part in layout.split("|")]
    paths = {"/r0": {"get": {"operationId": a, "tags": tagsets[0], "responses": resp}},
             "/r1": {"get": {"operationId": b, "tags": tagsets[1], "responses": resp}}}
    want = {}
    for url, ts in (("/r0", tagsets[0]), ("/r1", tagsets[1])):
        for t in ts:
            want.setdefault(t.lower(), []).append(url)
    return sandbox.base_doc(None, paths), "operationId", want


INVENTED_OWNERS = ["op-param-array", "op-param-scalar", "path-item-param-array", "path-item-param-scalar", "op-vs-path-item-param", "schema-prop", "schema-array-prop",
                   "component-param-array"]


def invented_doc(owner, same):
    """two owners (operations / path items / schemas) each with an inline enum under the same local name `status`"""
    va, vb = ["open", "shipped"], (["open", "shipped"] if same else ["new", "closed"])

    def enum(vals, array):
        e = {"type": "string", "enum": vals}
        return {"type": "array", "items": e} if array else e

    array = "array" in owner
    if owner.startswith("schema"):
        return sandbox.base_doc({"Order": {"type": "object", "properties": {"status": enum(va, array)}},
                                 "Ticket": {"type": "object", "properties": {"status": enum(vb, array)}}}), None
    pa = {"name": "status", "in": "query", "schema": enum(va, array)}
    pb = {"name": "status", "in": "query", "schema": enum(vb, array)}
    resp = {"204": {"description": "d"}}
    paths = {"/orders": {"get": {"operationId": "listOrders", "tags": ["shop"], "responses": resp}},
             "/tickets": {"get": {"operationId": "listTickets", "tags": ["shop"], "responses": resp}}}
    doc = sandbox.base_doc(None, paths)
    if owner.startswith("op-param"):
        paths["/orders"]["get"]["parameters"] = [pa]
        paths["/tickets"]["get"]["parameters"] = [pb]
    elif owner.startswith("path-item-param"):
        paths["/orders"]["parameters"] = [pa]
        paths["/tickets"]["parameters"] = [pb]
    elif owner == "op-vs-path-item-param":
        paths["/orders"]["get"]["parameters"] = [pa]
        paths["/tickets"]["parameters"] = [pb]
    elif owner == "component-param-array":
        doc["components"] = {"parameters": {"OrderStatus": pa, "TicketStatus": pb}}
        paths["/orders"]["get"]["parameters"] = [{"$ref": "#/components/parameters/OrderStatus"}]
        paths["/tickets"]["get"]["parameters"] = [{"$ref": "#/components/parameters/TicketStatus"}]
    return doc, {"list_orders": va, "list_tickets": vb}


NS_DERIVE = {
    "opids-tagged": lambda s: _derive("sanitize_method_name", s),
    "props": lambda s: _derive("sanitize_method_name", s),
    "params": lambda s: _derive("sanitize_method_name", s),
    "schemas": lambda s: _derive("sanitize_class_name", s),
    "enum": lambda s: _derive("enum_str_member", s),
    "opids": lambda s: _derive("sanitize_method_name", s),
    "tags": lambda s: _derive("sanitize_module_name", s),
}


def expand_plan(plan):
    """The set of tuples for a namespace is computed with the *current* derivation functions (so that the
    enumeration follows the code under test), then every tuple becomes its own case."""
    ns = plan["ns"]
    strings = plan["strings"]
    if ns in ("params",):
        # a parameter name must be a usable HTTP token-ish name; keep printable ASCII without spaces for header safety
        strings = [s for s in strings if s and all(33 <= ord(c) < 127 for c in s)]
    if ns in ("opids", "opids-tagged", "tags"):
        strings = [s for s in strings if s.strip()]
    if ns == "schemas":
        strings = [s for s in strings if s and all(33 <= ord(c) < 127 for c in s) and "$" not in s]
    tuples = colliding_tuples(strings, NS_DERIVE[ns])
    # invented-suffix triples
    extra = []
    for x, y in tuples[:]:
        try:
            d = NS_DERIVE[ns](x)
        except Exception:
            continue
        for inv in (f"{d}_2", f"{d}_1", f"{d}2"):
            if inv not in (x, y):
                extra.append([x, y, inv])
    # dedupe triples by invented name class (keep all: still cheap)
    return tuples + extra


# ----------------------------------------------------------------------------------------------
# execution
# ----------------------------------------------------------------------------------------------
def run_case(case):
    if case["kind"] == "fn":
        return run_fn(case)
    if case["kind"] == "nsplan":
        return run_nsplan(case)
    if case["kind"] == "ns":
        fs, outcome = run_ns_tuple(case["ns"], case["names"])
        for f in fs:
            f["msg"] = f"namespace={case['ns']} names={case['names']!r}: " + f["msg"]
        return {"findings": fs, "outcome": f"{case['ns']}:{outcome}" + (":finding" if fs else ""),
                "nontrivial": f"{case['ns']}:{'|'.join(case['names'])}", "sample": case}
    raise HarnessError("unknown case kind")


def run_fn(case):
    findings = {}
    nontriv = set()
    outcomes = set()
    n = 0
    for s in case["strings"]:
        for fn in FUNCS:
            if fn == "enum_int_member" and not s.strip():
                pass
            n += 1
            try:
                r = _derive(fn, s)
            except AttributeError as e:
                if "_generate_member_name" in str(e) or "NameSanitizer" in str(e):
                    continue  # derivation function renamed/removed: nothing to judge (layer B still covers the namespace)
                raise
            except Exception as e:  # totality
                sig = f"C20|total|{fn}|raised {type(e).__name__}"
                findings.setdefault(sig, f"{fn}({s!r}) raised {type(e).__name__}: {e}")
                outcomes.add("raised")
                continue
            if r != s:
                nontriv.add(f"{fn}:{s}")
            if not ident_ok(r):
                sig = f"C20|invalid|{fn}|{classify_bad(r)}"
                findings.setdefault(sig, f"{fn}({s!r}) == {r!r}")
                outcomes.add(classify_bad(r))
            else:
                outcomes.add("valid")
    return {"findings": [{"sig": k, "msg": v} for k, v in findings.items()], "evals": n,
            "nontrivial": sorted(nontriv), "nontrivial_multi": True,
            "outcome": "+".join(sorted(outcomes)),
            "sample": {"fn-batch-first": case["strings"][:3]}}


def run_nsplan(case):
    tuples = expand_plan(case)
    ns = case["ns"]
    findings = {}
    outcomes = {}
    for names in tuples:
        fs, outcome = run_ns_tuple(ns, names)
        outcomes[outcome] = outcomes.get(outcome, 0) + 1
        for f in fs:
            if f["sig"] not in findings:
                f["msg"] = f"namespace={ns} names={names!r}: " + f["msg"] + f"  [replay: kind=ns ns={ns} names={names!r}]"
                findings[f["sig"]] = f
    return {"findings": list(findings.values()), "evals": len(tuples),
            "nontrivial": [f"{ns}:{'|'.join(t)}" for t in tuples], "nontrivial_multi": True,
            "outcome": f"{ns}:" + ",".join(f"{k}={v}" for k, v in sorted(outcomes.items())),
            "sample": {"namespace": ns, "tuples": len(tuples), "first": tuples[:3], "outcomes": outcomes}}


def _gen(doc):
    with sandbox.scratch() as d:
        root = os.path.join(d, "proj")
        files, err = sandbox.generate(doc, root, output_package="cli")
        if err is not None:
            return None, err
        out = {}
        for p in sandbox.py_files(os.path.join(root, "cli")):
            rel = os.path.relpath(p, os.path.join(root, "cli"))
            if rel.startswith("core" + os.sep):
                continue
            with open(p, encoding="utf-8") as f:
                out[rel] = f.read()
        return out, None


def _norm(msg):
    import re

    return re.sub(r"'[^']*'", "'*'", str(msg).split("(")[0].strip())


def _parse(src):
    try:
        compile(src, "<generated>", "exec", dont_inherit=True)  # full compiler checks (duplicate arguments ...)
        return ast.parse(src), None
    except SyntaxError as e:
        return None, e


def _class_fields(tree, clsname=None):
    res = {}
    for node in tree.body:
        if isinstance(node, ast.ClassDef):
            fields = [st.target.id for st in node.body if isinstance(st, ast.AnnAssign) and isinstance(st.target, ast.Name)]
            assigns = {}
            for st in node.body:
                if isinstance(st, ast.Assign) and len(st.targets) == 1 and isinstance(st.targets[0], ast.Name):
                    try:
                        assigns[st.targets[0].id] = ast.literal_eval(st.value)
                    except Exception:
                        assigns[st.targets[0].id] = "<expr>"
            meta = {}
            for st in node.body:
                if isinstance(st, ast.ClassDef) and st.name == "Meta":
                    for s2 in st.body:
                        if isinstance(s2, ast.Assign) and isinstance(s2.targets[0], ast.Name):
                            try:
                                meta[s2.targets[0].id] = ast.literal_eval(s2.value)
                            except Exception:
                                pass
            res[node.name] = {"fields": fields, "assigns": assigns, "meta": meta}
    return res


def run_ns_tuple(ns, names):
    """returns (findings, outcome)"""
    F = []

    def bad(clause, disc, msg):
        F.append({"sig": f"C20|{ns}|{clause}|{disc}", "msg": msg})

    if ns == "props":
        props = {n: {"type": "string"} for n in names}
        doc = sandbox.base_doc({"Holder": {"type": "object", "properties": props}})
        files, err = _gen(doc)
        if err is not None:
            return F, "rejected:" + type(err).__name__
        src = files.get("models/holder.py")
        if src is None:
            bad("lost", "model file missing", f"no models/holder.py; files={sorted(files)}")
            return F, "missing"
        tree, se = _parse(src)
        if tree is None:
            bad("syntax", _norm(se.msg), f"{se.msg} in\n{src}")
            return F, "syntax"
        info = _class_fields(tree).get("Holder")
        if info is None:
            bad("lost", "class missing", src)
            return F, "missing"
        fields = info["fields"]
        if len(fields) != len(set(fields)):
            bad("merged", "duplicate field identifier", f"fields={fields}")
        for f in fields:
            if not ident_ok(f):
                bad("invalid", classify_bad(f), f"field {f!r}")
        load = info["meta"].get("key_transform_with_load", {})
        if len(fields) != len(names):
            bad("dropped", "field count != property count", f"fields={fields} for properties {names}")
        elif sorted(load.keys()) != sorted(names):
            bad("dropped", "wire key missing from Meta.key_transform_with_load", f"load map {load} for properties {names}")
        elif sorted(load.values()) != sorted(fields):
            bad("merged", "Meta map does not cover the fields one-to-one", f"load map {load} fields {fields}")
        return F, "checked"

    if ns == "params":
        params = [{"name": n, "in": "query", "schema": {"type": "string"}} for n in names]
        doc = sandbox.base_doc(None, {"/p": {"get": {"operationId": "op", "parameters": params,
                                                      "responses": {"204": {"description": "d"}}}}})
        files, err = _gen(doc)
        if err is not None:
            return F, "rejected:" + type(err).__name__
        src = files.get("endpoints/default.py")
        if src is None:
            bad("lost", "endpoint file missing", f"files={sorted(files)}")
            return F, "missing"
        tree, se = _parse(src)
        if tree is None:
            bad("syntax", _norm(se.msg), f"{se.msg}")
            return F, "syntax"
        fn = None
        for node in ast.walk(tree):
            if isinstance(node, ast.ClassDef) and node.name == "DefaultClient":
                for st in node.body:
                    if isinstance(st, ast.AsyncFunctionDef) and st.name == "op":
                        fn = st
        if fn is None:
            bad("lost", "operation method missing", "no async def op in DefaultClient")
            return F, "missing"
        args = [a.arg for a in fn.args.args + fn.args.kwonlyargs if a.arg != "self"]
        if len(args) != len(set(args)):
            bad("merged", "duplicate argument identifier", f"args={args}")
        if len(args) != len(names):
            bad("dropped", "argument count != parameter count", f"args={args} for parameters {names}")
        for a in args:
            if not ident_ok(a):
                bad("invalid", classify_bad(a), f"arg {a!r}")
        consts = {n.value for n in ast.walk(fn) if isinstance(n, ast.Constant) and isinstance(n.value, str)}
        for n in names:
            if n not in consts:
                bad("dropped", "original parameter name not used as a wire key", f"{n!r} not among string constants of the method")
        return F, "checked"

    if ns == "schemas":
        schemas = {n: {"type": "object", "properties": {f"p{i}": {"type": "string"}}} for i, n in enumerate(names)}
        # every colliding schema is also REFERENCED: the reference must resolve to that schema's own class, not to its namesake's
        schemas["ZzRefs"] = {"type": "object", "properties": {f"r{i}": {"$ref": "#/components/schemas/" + n} for i, n in enumerate(names)}}
        doc = sandbox.base_doc(schemas)
        files, err = _gen(doc)
        if err is not None:
            return F, "rejected:" + type(err).__name__
        classes = {}
        for rel, src in files.items():
            if not rel.startswith("models/") or rel.endswith("__init__.py"):
                continue
            tree, se = _parse(src)
            if tree is None:
                bad("syntax", _norm(se.msg), f"{rel}: {se.msg}")
                continue
            for cname, info in _class_fields(tree).items():
                if cname in classes:
                    bad("merged", "same class name emitted twice", f"{cname} in {rel} and {classes[cname][0]}")
                classes[cname] = (rel, info["fields"])
                if not ident_ok(cname):
                    bad("invalid", classify_bad(cname), f"class {cname!r}")
            stem = os.path.basename(rel)[:-3]
            if not ident_ok(stem):
                bad("invalid", "module " + classify_bad(stem), f"module {stem!r}")
        refs_cls = classes.pop("ZzRefs", None)
        fieldsets = sorted(tuple(v[1]) for v in classes.values())
        want = sorted((f"p{i}",) for i in range(len(names)))
        if fieldsets != want:
            bad("dropped", "a schema has no model of its own", f"schemas {names} -> classes {classes}")
        elif refs_cls is not None:
            tree, _ = _parse(files[refs_cls[0]])
            for node in tree.body:
                if isinstance(node, ast.ClassDef) and node.name == "ZzRefs":
                    for st in node.body:
                        if isinstance(st, ast.AnnAssign) and isinstance(st.target, ast.Name) and st.target.id.startswith("r") and st.target.id[1:].isdigit():
                            i = int(st.target.id[1:])
                            targets = [n.id for n in ast.walk(st.annotation) if isinstance(n, ast.Name) and n.id in classes]
                            targets += [c for n in ast.walk(st.annotation) if isinstance(n, ast.Constant) and isinstance(n.value, str) for c in classes if c == n.value.strip()]
                            if targets and tuple(classes[targets[0]][1]) != (f"p{i}",):
                                bad("merged", "a reference to one schema is typed as its namesake's class",
                                    f"ZzRefs.{st.target.id} -> {targets[0]} with fields {classes[targets[0]][1]}, expected the class with field p{i}; schemas {names}")
        return F, "checked"

    if ns == "enum":
        doc = sandbox.base_doc({"Kind": {"type": "string", "enum": list(names)}})
        files, err = _gen(doc)
        if err is not None:
            return F, "rejected:" + type(err).__name__
        src = files.get("models/kind.py")
        if src is None:
            bad("lost", "enum file missing", f"files={sorted(files)}")
            return F, "missing"
        tree, se = _parse(src)
        if tree is None:
            bad("syntax", _norm(se.msg), f"{se.msg} in\n{src}")
            return F, "syntax"
        info = _class_fields(tree).get("Kind")
        if info is None:
            bad("lost", "enum class missing", src)
            return F, "missing"
        members = info["assigns"]
        # count assignments including duplicates
        cls = [n for n in ast.walk(tree) if isinstance(n, ast.ClassDef) and n.name == "Kind"][0]
        mnames = [st.targets[0].id for st in cls.body if isinstance(st, ast.Assign) and isinstance(st.targets[0], ast.Name)]
        if len(mnames) != len(set(mnames)):
            bad("merged", "duplicate member identifier", f"members={mnames}")
        for m in mnames:
            if not ident_ok(m):
                bad("invalid", classify_bad(m), f"member {m!r}")
        vals = sorted(str(v) for v in members.values())
        if sorted(names) != vals and len(mnames) == len(set(mnames)):
            bad("dropped", "enum values differ from the spec's", f"spec {sorted(names)} emitted {vals}")
        return F, "checked"

    if ns in ("opids", "opids-tagged"):
        paths = {}
        spell = ["Users", "users", "USERS", "users"]  # one client under several spellings of its tag
        for i, n in enumerate(names):
            paths[f"/r{i}"] = {"get": {"operationId": n, "responses": {"204": {"description": "d"}}}}
            if ns == "opids-tagged":
                paths[f"/r{i}"]["get"]["tags"] = [spell[i % 4]]
        doc = sandbox.base_doc(None, paths)
        files, err = _gen(doc)
        if err is not None:
            return F, "rejected:" + type(err).__name__
        src = files.get("endpoints/default.py" if ns == "opids" else "endpoints/users.py")
        if src is None:
            bad("lost", "endpoint file missing", f"files={sorted(files)}")
            return F, "missing"
        tree, se = _parse(src)
        if tree is None:
            bad("syntax", _norm(se.msg), f"{se.msg}")
            return F, "syntax"
        meths = []
        for node in ast.walk(tree):
            if isinstance(node, ast.ClassDef) and node.name == ("DefaultClient" if ns == "opids" else "UsersClient"):
                meths = [st for st in node.body if isinstance(st, ast.AsyncFunctionDef) and not st.name.startswith("__")]
        mn = [m.name for m in meths]
        if len(mn) != len(set(mn)):
            bad("merged", "duplicate method identifier", f"methods={mn}")
        if len(mn) != len(names):
            bad("dropped", "method count != operation count", f"methods={mn} for operationIds {names}")
        for m in mn:
            if not ident_ok(m):
                bad("invalid", classify_bad(m), f"method {m!r}")
        urls = set()
        for m in meths:
            for n in ast.walk(m):
                if isinstance(n, ast.Constant) and isinstance(n.value, str) and n.value.startswith("/r"):
                    urls.add(n.value)
        if len(urls) != len(names) and len(mn) == len(names):
            bad("merged", "two methods address the same path", f"urls={urls}")
        return F, "checked"
    if ns == "opids-derived":
        doc, strat, want = derived_doc(names)
        with sandbox.scratch() as d:
            root = os.path.join(d, "proj")
            files_, err = sandbox.generate(doc, root, output_package="cli", naming=strat)
            if err is not None:
                return F, "rejected:" + type(err).__name__
            files = {}
            for pth in sandbox.py_files(os.path.join(root, "cli", "endpoints")):
                with open(pth, encoding="utf-8") as f:
                    files[os.path.basename(pth)] = f.read()
        for tag, urls_want in want.items():
            src = files.get(tag + ".py")
            if src is None:
                bad("lost", "endpoint file missing", f"{tag}.py not in {sorted(files)}")
                continue
            tree, se = _parse(src)
            if tree is None:
                bad("syntax", _norm(se.msg), f"{tag}.py: {se.msg}")
                continue
            for node in ast.walk(tree):
                if isinstance(node, ast.ClassDef) and node.name.endswith("Client") and not node.name.endswith("Protocol") \
                        and not any(isinstance(b_, ast.Name) and b_.id == "Protocol" for b_ in node.bases):
                    meths = [st for st in node.body if isinstance(st, ast.AsyncFunctionDef) and not st.name.startswith("__")
                             and not any(isinstance(dec, ast.Name) and dec.id == "overload" for dec in st.decorator_list)]
                    mn = [m.name for m in meths]
                    if len(mn) != len(set(mn)):
                        bad("merged", "duplicate method identifier", f"{node.name}: methods={mn}")
                    elif len(mn) != len(urls_want):
                        bad("dropped", "method count != operation count", f"{node.name}: methods={mn} for operations {urls_want}")
                    for m in mn:
                        if not ident_ok(m):
                            bad("invalid", classify_bad(m), f"method {m!r}")
                    urls = set()
                    for m in meths:
                        for n_ in ast.walk(m):
                            if isinstance(n_, ast.Constant) and isinstance(n_.value, str) and n_.value.startswith("/"):
                                urls.add(n_.value.split("{")[0])
                    missing = [u for u in urls_want if u.split("{")[0] not in urls]
                    if missing and len(mn) == len(set(mn)) == len(urls_want):
                        bad("merged", "two methods address the same path", f"{node.name}: urls={sorted(urls)} want {urls_want}")
        return F, "checked"
    if ns == "invented":
        owner, same = names[0], names[1] == "same-values"
        doc, want_ops = invented_doc(owner, same)
        files, err = _gen(doc)
        if err is not None:
            return F, "rejected:" + type(err).__name__
        enums = {}
        models = {}
        for rel, src in files.items():
            if rel.startswith("models/") and not rel.endswith("__init__.py"):
                tree, se = _parse(src)
                if tree is None:
                    bad("syntax", _norm(se.msg), f"{rel}: {se.msg}")
                    continue
                for cname, info in _class_fields(tree).items():
                    vals = sorted(str(v) for v in info["assigns"].values() if isinstance(v, str))
                    if vals and not info["fields"]:
                        enums[cname] = vals
                    models[cname] = (rel, tree)

        def enum_of(annotation):
            ids = [n.id for n in ast.walk(annotation) if isinstance(n, ast.Name)] + \
                  [n.value.strip() for n in ast.walk(annotation) if isinstance(n, ast.Constant) and isinstance(n.value, str)]
            return [i for i in ids if i in enums]

        seen_any = False
        if want_ops is None:
            for cls, vals in (("Order", ["open", "shipped"]), ("Ticket", ["open", "shipped"] if same else ["new", "closed"])):
                if cls not in models:
                    bad("dropped", "a schema has no model of its own", f"{cls}; classes {sorted(models)}")
                    continue
                for node in models[cls][1].body:
                    if isinstance(node, ast.ClassDef) and node.name == cls:
                        for st in node.body:
                            if isinstance(st, ast.AnnAssign) and isinstance(st.target, ast.Name) and st.target.id == "status":
                                es = enum_of(st.annotation)
                                if es:
                                    seen_any = True
                                    if enums[es[0]] != sorted(vals):
                                        bad("merged", "an inline enum is typed as another owner's enum class", f"{cls}.status -> {es[0]} {enums[es[0]]}, spec values {sorted(vals)}")
        else:
            src = files.get("endpoints/shop.py")
            tree, se = _parse(src) if src else (None, None)
            if tree is None:
                bad("lost", "endpoint file missing or unparsable", f"files={sorted(files)}")
                return F, "missing"
            for node in ast.walk(tree):
                if isinstance(node, ast.AsyncFunctionDef) and node.name in want_ops:
                    for a in node.args.args + node.args.kwonlyargs:
                        if a.arg == "status" and a.annotation is not None:
                            es = enum_of(a.annotation)
                            if es:
                                seen_any = True
                                if enums[es[0]] != sorted(want_ops[node.name]):
                                    bad("merged", "an inline enum is typed as another owner's enum class",
                                        f"{node.name}(status: {ast.unparse(a.annotation)}) -> {es[0]} {enums[es[0]]}, spec values {sorted(want_ops[node.name])}")
        return F, "checked" if seen_any else "no-enum-class-emitted"
    if ns == "tags":
        # tag spellings that derive the same module name, one operation each: every operation must stay callable on some
        # client (merging the SPELLINGS into one client is fine, merging or dropping the OPERATIONS is not), and every module,
        # class and APIClient attribute derived from the tags must be a valid identifier
        paths = {}
        for i, n in enumerate(names):
            paths[f"/r{i}"] = {"get": {"operationId": f"op{'abcdef'[i]}", "tags": [n], "responses": {"204": {"description": "d"}}}}
        doc = sandbox.base_doc(None, paths)
        files, err = _gen(doc)
        if err is not None:
            return F, "rejected:" + type(err).__name__
        urls = {}
        for rel, src in sorted(files.items()):
            if not rel.startswith("endpoints/") or rel.endswith("__init__.py"):
                continue
            stem = os.path.basename(rel)[:-3]
            if not ident_ok(stem):
                bad("invalid", "module " + classify_bad(stem), f"module {stem!r}")
            tree, se = _parse(src)
            if tree is None:
                bad("syntax", _norm(se.msg), f"{rel}: {se.msg}")
                continue
            for node in tree.body:
                if isinstance(node, ast.ClassDef) and node.name.endswith("Client") and not node.name.endswith("Protocol"):
                    if not ident_ok(node.name):
                        bad("invalid", classify_bad(node.name), f"class {node.name!r}")
                    for st in node.body:
                        if isinstance(st, ast.AsyncFunctionDef) and not st.name.startswith("__"):
                            for n in ast.walk(st):
                                if isinstance(n, ast.Constant) and isinstance(n.value, str) and n.value.startswith("/r"):
                                    urls.setdefault(n.value, []).append(f"{rel}:{node.name}.{st.name}")
        for i in range(len(names)):
            if f"/r{i}" not in urls:
                bad("dropped", "an operation is on no tag client", f"/r{i} (tag {names[i]!r}); reachable: {urls}")
        csrc = files.get("client.py")
        attrs = []
        if csrc is not None:
            tree, se = _parse(csrc)
            if tree is None:
                bad("syntax", _norm(se.msg), f"client.py: {se.msg}")
            else:
                for node in tree.body:
                    if isinstance(node, ast.ClassDef) and node.name == "APIClient":
                        for st in node.body:
                            if isinstance(st, ast.FunctionDef) and any(isinstance(d, ast.Name) and d.id == "property" for d in st.decorator_list):
                                attrs.append(st.name)
                if len(attrs) != len(set(attrs)):
                    bad("merged", "duplicate tag attribute on APIClient", f"attrs={attrs}")
                for a in attrs:
                    if not ident_ok(a):
                        bad("invalid", classify_bad(a), f"attribute {a!r}")
                mods = {os.path.basename(r)[:-3] for r in files if r.startswith("endpoints/") and not r.endswith("__init__.py")}
                if len(attrs) != len(mods):
                    bad("dropped", "tag modules and APIClient tag attributes differ in number", f"attrs={attrs} modules={sorted(mods)}")
        return F, "checked"
    raise HarnessError(f"unknown namespace {ns}")
