"""C04 - request fidelity: what the caller passes is what goes on the wire."""
from __future__ import annotations

import base64
import datetime
import itertools
import json
import urllib.parse

from .. import driven
from ..kernel import HarnessError
from ..space import ops

PID = "C04"
LEVEL = "exploration"
RULE = ("operations: every single-parameter shape (location x required x kind; location x name style), every pair of (location x required) classes, "
        "every body kind x required x {no param, optional query, required header}, all 8 methods, path templates x name styles, path-item vs operation "
        "declaration; for each operation EVERY subset of its optional arguments is supplied (2^k) with two value sets (plain / needing escaping or "
        "serialisation). Each call is made on the generated client against an in-memory server and the captured request is compared with a reference "
        "model of the expected wire form. non-trivial = distinct (operation, supplied subset, value set) calls with at least one argument")
ASSUMPTIONS = [
    "expected wire form (mc/props/c04.py expect_*): parameters under their original names in their declared location, arrays as repeated keys "
    "(httpx default, documented in README), booleans compared case-insensitively, numbers numerically, date-times as instants; header names case-insensitive",
    "not demanded: OpenAPI style/explode variants, parameter order, extra transport headers",
    "argument names are derived with the generator's own sanitiser; an operation whose package does not import is C01's subject and only counted",
]
BOUND = {"quick": "~340 operations inline and through component refs, every subset of <=3 optional arguments, 2 value sets; all calls of a pack on one client with a transport default header", "thorough": "full location x required x kind x name product (768 single-parameter shapes); every unordered pair of (location x required x kind) shapes over 6 kinds; every body kind x required x every parameter class; 3 non-path parameters in every required pattern; every per-argument choice of the two values (2^n, n<=4) for every supplied subset"}
CHUNK = 2
PACK = 8
P = ops.param
PATH_VALUES = {"string": ["abc", "a b-é"]}


def op_cases(tier):
    out = [c for g in ops.shared_item_groups() for c in g]   # first, so that each group stays inside one pack (one document)
    # request bodies on methods that rarely carry one (bulk delete, search-by-GET): what the caller supplies goes on the wire
    for m in ("delete", "get"):
        out.append(ops.op(m, "/bulk", [], {"kind": "json-ref", "required": True}, {"204": "none"}))
        out.append(ops.op(m, "/bulk/{id}", [P("id", "path", True, "integer")], {"kind": "json-array-ref", "required": False}, {"204": "none"}))
    locs = ["path", "query", "header", "cookie"]
    scalar_kinds = [k for k in ops.PARAM_KINDS if k != "arr-string"]
    if tier == "quick":
        for loc in locs:
            for req in (False, True):
                for k in ops.PARAM_KINDS:
                    if k == "arr-string" and loc != "query":
                        continue
                    if loc == "path" and not req:
                        continue
                    out.append(ops.op("get", "/a/{p}" if loc == "path" else "/a", [P("p", loc, req, k)]))
            for n in ops.PARAM_NAMES:
                for req in (False, True):
                    out.append(ops.op("get", "/a/{%s}" % n if loc == "path" else "/a", [P(n, loc, req, "string")]))
    else:
        for loc in locs:
            for req in (False, True):
                for k in ops.PARAM_KINDS:
                    if k == "arr-string" and loc != "query":
                        continue
                    if loc == "path" and not req:
                        continue
                    for n in ops.PARAM_NAMES:
                        out.append(ops.op("get", "/a/{%s}" % n if loc == "path" else "/a", [P(n, loc, req, k)]))
    classes = [(loc, req) for loc in locs for req in (False, True) if not (loc == "path" and not req)]
    for (la, ra), (lb, rb) in itertools.combinations_with_replacement(classes, 2):
        path = "/a" + ("/{p1}" if la == "path" else "") + ("/{p2}" if lb == "path" else "")
        out.append(ops.op("get", path, [P("p1", la, ra, "string"), P("p2", lb, rb, "integer")]))
    for bk in ops.BODY_KINDS:
        for req in (False, True):
            for extra in ([], [P("q", "query", False, "string")], [P("X-H", "header", True, "string")]):
                out.append(ops.op("post", "/b", extra, {"kind": bk, "required": req}, {"204": "none"}))
    for m in ("get", "put", "post", "delete", "patch", "head", "options", "trace"):
        out.append(ops.op(m, "/m/{id}", [P("id", "path", True, "integer"), P("q", "query", False, "string")],
                          {"kind": "json-ref", "required": True} if m in ("put", "post", "patch") else None, {"204": "none"}))
    out.append(ops.op("get", "/a/{id}/b/{b_id}", [P("id", "path", True, "integer"), P("b_id", "path", True, "string")]))
    out.append(ops.op("get", "/a/{user-id}", [P("user-id", "path", True, "string")]))
    out.append(ops.op("get", "/a/{userId}/x", [P("userId", "path", True, "string"), P("userId2", "query", False, "string")]))
    out.append(ops.op("get", "/a/{implicit}", []))  # path variable without a declared parameter
    for loc in locs:
        for at in ("path", "both"):
            out.append(ops.op("get", "/a/{id}" if loc == "path" else "/a", [P("id", loc, loc == "path", "string", at)]))
    out.append(ops.op("get", "/q3", [P("a", "query", False, "string"), P("b", "header", False, "integer"), P("c", "cookie", False, "boolean")]))
    if tier != "quick":
        # every unordered pair of (location x required x kind) parameter shapes on one operation
        shapes = [(loc, req, k) for (loc, req) in classes for k in ("string", "integer", "boolean", "arr-string", "str-enum", "date")
                  if not (k == "arr-string" and loc != "query")]
        for (la, ra, ka), (lb, rb, kb) in itertools.combinations_with_replacement(shapes, 2):
            path = "/a" + ("/{p1}" if la == "path" else "") + ("/{p2}" if lb == "path" else "")
            out.append(ops.op("get", path, [P("p1", la, ra, ka), P("p2", lb, rb, kb)]))
        # every body kind next to every parameter class
        for bk in ops.BODY_KINDS:
            for req in (False, True):
                for (loc, preq) in classes:
                    out.append(ops.op("post", "/b/{p}" if loc == "path" else "/b", [P("p", loc, preq, "string")], {"kind": bk, "required": req}, {"204": "none"}))
        # three parameters, one per non-path location, every required pattern, next to a path parameter
        for ra, rb, rc in itertools.product((False, True), repeat=3):
            out.append(ops.op("get", "/t/{id}", [P("id", "path", True, "integer"), P("a", "query", ra, "arr-string"), P("b", "header", rb, "string"), P("c", "cookie", rc, "integer")]))
    seen = set()
    uniq = []
    for c in out:
        k = ops.describe(c)
        if k not in seen:
            seen.add(k)
            uniq.append(c)
    return uniq


def cases(tier, seed):
    oc = op_cases(tier)
    return [{"ops": oc[i:i + PACK], "refs": r, "fullprod": tier != "quick"} for r in (False, True) for i in range(0, len(oc), PACK)]


# ----------------------------------------------------------------------------------------------
def argname(name):
    from pyopenapi_gen.core.utils import NameSanitizer

    return NameSanitizer.sanitize_method_name(name)


def param_values(p):
    if p["in"] == "path" and p["kind"] in PATH_VALUES:
        return PATH_VALUES[p["kind"]]
    if p["in"] in ("header", "cookie") and p["kind"] == "string":
        return ["abc", "a b-c"]  # header / cookie values are ASCII on the wire; non-ASCII would be an unfair input
    return ops.PARAM_KINDS[p["kind"]][1]


def json_equiv(a, b):
    """JSON equality where an absent optional key is the same as null / [] / {} (the serialiser may render an unset optional
    list field as [] and drops null-valued keys)"""
    empty = (None, [], {})
    if isinstance(a, dict) and isinstance(b, dict):
        for k in set(a) | set(b):
            if k in a and k in b:
                if not json_equiv(a[k], b[k]):
                    return False
            else:
                v = a.get(k, b.get(k))
                if v not in empty:
                    return False
        return True
    if isinstance(a, list) and isinstance(b, list):
        return len(a) == len(b) and all(json_equiv(x, y) for x, y in zip(a, b))
    if isinstance(a, bool) != isinstance(b, bool):
        return False
    return a == b


def implicit_path_vars(case):
    import re

    declared = {p["name"] for p in case["params"] if p["in"] == "path"}
    return [v for v in re.findall(r"\{([^}]+)\}", case["path"]) if v not in declared]


FULL_VALUE_PRODUCT = False   # thorough: every per-argument choice of the two values (2^n), not only "all plain" / "all escaping"


def assignments(case):
    """every subset of optional arguments x 2 value sets -> [(label, {spec param name: value}, body variant index or None)]"""
    params = case["params"]
    opt = [p for p in params if not p["required"]]
    body = case.get("body")
    body_opts = [None]
    if body:
        nvar = len(ops.BODY_ARGS[body["kind"]])
        body_opts = list(range(nvar)) if body.get("required") else [None] + list(range(nvar))
    out = []
    for k in range(len(opt) + 1):
        for subset in itertools.combinations(range(len(opt)), k):
            chosen = {opt[i]["name"] + "@" + opt[i]["in"] for i in subset}
            present = [p for p in params if p["required"] or (p["name"] + "@" + p["in"]) in chosen]
            if FULL_VALUE_PRODUCT and 2 <= len(present) <= 4:
                vsets = [(0,) * len(present), (1,) * len(present)] + [t for t in itertools.product((0, 1), repeat=len(present)) if len(set(t)) > 1]
            else:
                vsets = [(0,) * len(present), (1,) * len(present)]
            for vt in vsets:
                vi = vt[0] if vt else 0
                uniform = len(set(vt)) <= 1
                for bo in body_opts:
                    vals = {}
                    for p, pv in zip(present, vt):
                        vals[p["name"] + "@" + p["in"]] = param_values(p)[pv]
                    if not vt:
                        vi = 0
                    for v in implicit_path_vars(case):
                        vals[v + "@path"] = ["abc", "x y"][vi]
                    vlab = f"v{vi}" if uniform else "v" + "".join(map(str, vt))
                    out.append((f"supplied={sorted(chosen)}|{vlab}|body={bo}", vals, bo))
    # dedupe identical assignments (value sets coincide when nothing optional)
    seen = set()
    uniq = []
    for lab, vals, bo in out:
        k = json.dumps([vals, bo], sort_keys=True, default=str)
        if k not in seen:
            seen.add(k)
            uniq.append((lab, vals, bo))
    return uniq


def make_calls_for(case):
    calls = []
    for lab, vals, bo in assignments(case):
        kwargs = {}
        for key, v in vals.items():
            name = key.rsplit("@", 1)[0]
            kwargs[argname(name)] = v
        if bo is not None:
            bargs, _ = ops.BODY_ARGS[case["body"]["kind"]][bo]
            kwargs.update(bargs)
        calls.append({"kwargs": kwargs, "response": {"status": 204}, "label": lab})
    return calls


def norm_scalar(kind, v):
    if kind == "boolean":
        return str(v).lower()
    if kind in ("integer",):
        return str(v)
    if kind == "number":
        return float(v)
    return v


def value_matches(kind, expected, got):
    if kind == "boolean":
        return str(got).lower() == str(expected).lower()
    if kind == "number":
        try:
            return float(got) == float(expected)
        except ValueError:
            return False
    if kind == "integer":
        return got == str(expected)
    if kind == "date-time":
        try:
            return datetime.datetime.fromisoformat(got.replace("Z", "+00:00")) == datetime.datetime.fromisoformat(expected)
        except ValueError:
            return False
    return got == str(expected)


def check_call(case, idx, lab, vals, bo, rec, add):
    where = f"{ops.describe(case)} | {lab}"
    if rec.get("lookup_error"):
        add("lookup", "generated method not found under tag client t<i>.op<i>", f"{rec['lookup_error']} | {where}")
        return
    if rec.get("unknown_args"):
        add("signature", "declared parameter has no argument in the generated signature", f"{rec['unknown_args']} vs {rec.get('params')} | {where}")
        return
    if rec.get("build_error"):
        import re

        m = re.sub(r"'[^']*'", "'*'", rec["build_error"])
        add("signature", f"a well-typed value of the declared parameter type cannot be passed (annotation mismatch): {m[:80]}", f"{rec['build_error']} | {where}")
        return
    reqs = rec.get("requests", [])
    if rec.get("kind") == "raise" and not reqs:
        import re

        m = re.sub(r"'[^']*'", "'*'", rec["exc"]["msg"])
        m = re.sub(r"\b\w+\.op\d+\(\)", "<method>()", m)
        m = re.sub(r"\d+", "N", m)[:120]
        add("call-failed", f"call raised before any request was sent: {rec['exc']['type']}: {m}", f"{rec['exc']['msg']} | {where}")
        return
    if len(reqs) != 1:
        add("request-count", f"{len(reqs)} requests for one call", where)
        if not reqs:
            return
    r = reqs[0]
    if r["method"] != case["method"].upper():
        add("method", f"HTTP method {r['method']} instead of {case['method'].upper()}", where)
    # path
    exp_path = ("/api/o%s" % case["item"] if case.get("item") is not None else "/api/o%d" % idx) + case["path"]
    for key, v in vals.items():
        name, loc = key.rsplit("@", 1)
        if loc == "path":
            exp_path = exp_path.replace("{%s}" % name, str(v))
    got_path = urllib.parse.unquote(r["path"])
    if got_path != exp_path:
        add("path", "URL path differs from the template with the caller's values substituted", f"{got_path!r} != {exp_path!r} | {where}")
    q = {}
    for k, v in r["query"]:
        q.setdefault(k, []).append(v)
    h = {}
    for k, v in r["headers"]:
        h.setdefault(k.lower(), []).append(v)
    cookies = {}
    for cv in h.get("cookie", []):
        for part in cv.split(";"):
            if "=" in part:
                a, b = part.strip().split("=", 1)
                cookies[a] = b
    multi = len(ops.BODY_KINDS[case["body"]["kind"]]) > 1 if case.get("body") else False
    ctx = "multi-content-op" if multi else "op"
    for p in case["params"]:
        key = p["name"] + "@" + p["in"]
        supplied = key in vals
        loc = p["in"]
        if loc == "path":
            continue
        store = {"query": q, "header": h, "cookie": cookies}[loc]
        name = p["name"].lower() if loc == "header" else p["name"]
        if supplied:
            exp = vals[key]
            exp_list = exp if isinstance(exp, list) else [exp]
            got = store.get(name)
            if got is None:
                elsewhere = [l for l, s in (("query", q), ("header", h), ("cookie", cookies)) if l != loc and (p["name"] in s or p["name"].lower() in s)]
                alt = [k for k in store if k.lower().replace("-", "_") == argname(p["name"]).lower() and k != name]
                if elsewhere:
                    add("wrong-location", f"{loc} parameter sent as {elsewhere[0]}", f"{p['name']} | {where}")
                elif alt:
                    add("wire-name", f"{loc} parameter sent under a derived name instead of its spec name", f"{p['name']} -> {alt} | {where}")
                else:
                    add("wire-missing", f"supplied {loc} parameter not on the wire ({ctx}, declared at {p['at']})", f"{p['name']} | {where}")
                continue
            got_list = got if isinstance(got, list) else [got]
            if loc == "header" and len(got_list) == 1 and len(exp_list) > 1:
                got_list = [x.strip() for x in got_list[0].split(",")]
            if len(got_list) != len(exp_list) or not all(value_matches(p["kind"], e, g) for e, g in zip(exp_list, got_list)):
                add("wire-value", f"{loc} parameter of kind {p['kind']} has a different value on the wire", f"{p['name']}: sent {got_list} for {exp_list} | {where}")
        else:
            if name in store:
                add("not-omitted", f"optional {loc} parameter left as None is sent anyway", f"{p['name']}={store[name]} | {where}")
    # body
    ctype = (h.get("content-type") or [""])[0]
    body = base64.b64decode(r["body_b64"])
    if bo is None:
        if body and case.get("body") is None:
            add("body", "request body sent for an operation without a request body", where)
        elif body and body not in (b"null", b"{}"):
            add("body", "request body sent although the optional body argument was omitted", f"{body[:60]!r} | {where}")
    else:
        _, exp = ops.BODY_ARGS[case["body"]["kind"]][bo]
        bk = case["body"]["kind"]
        if not ctype.startswith(exp["ctype"]):
            add("body-content-type", f"{bk} body sent with content type {ctype.split(';')[0] or 'none'}", where)
        if "json" in exp:
            try:
                got = json.loads(body)
            except Exception:
                got = "<not json>"
            if not json_equiv(got, exp["json"]):
                gj = json.dumps(got, sort_keys=True)[:200]
                add("body-json", f"{bk} body differs from the serialised argument", f"sent {gj} for {json.dumps(exp['json'], sort_keys=True)[:200]} | {where}")
        elif "form" in exp:
            got = dict(urllib.parse.parse_qsl(body.decode("utf-8", "replace"), keep_blank_values=True))
            if got != exp["form"]:
                add("body-form", f"{bk} body differs from the argument", f"sent {got} for {exp['form']} | {where}")
        elif "raw_b64" in exp:
            if body != base64.b64decode(exp["raw_b64"]):
                add("body-bytes", f"{bk} body differs from the argument", f"sent {body[:40]!r} | {where}")
        elif "contains_b64" in exp:
            if base64.b64decode(exp["contains_b64"]) not in body:
                add("body-bytes", f"{bk} body does not contain the file bytes", f"sent {body[:80]!r} | {where}")


def run_case(case):
    global FULL_VALUE_PRODUCT
    FULL_VALUE_PRODUCT = bool(case.get("fullprod"))
    cs = case["ops"]
    stats = {}
    refs = bool(case.get("refs"))
    # all calls of a pack go through ONE client whose transport has a default header: whatever one call supplies must not show up in the next
    res = driven.drive_pack(cs, make_calls_for, "bundled", stats, refs=refs, transport_kwargs={"default_headers": {"X-Default": "dflt"}})
    found = []
    seen = set()
    nontriv = []
    outcomes = set()
    ncalls = 0
    for i, (c, r) in enumerate(zip(cs, res)):
        if r["status"] != "ok":
            outcomes.add(r["status"])
            continue

        def add(clause, disc, detail, c=c):
            sig = f"C04|{clause}|{disc}"
            key = ops.describe(c) + ("|via-component-refs" if refs else "")
            if (sig, key) not in seen:
                seen.add((sig, key))
                found.append({"sig": sig, "key": key, "msg": detail})

        asg = assignments(c)
        recs = {tuple(rec["id"])[1]: rec for rec in r["records"]}
        # position of the op inside the (possibly bisected) document is carried by the request path itself: recover index
        for j, (lab, vals, bo) in enumerate(asg):
            rec = recs.get(j)
            if rec is None:
                raise HarnessError("missing call record")
            idx = i
            if rec.get("requests"):
                import re

                m = re.match(r"/api/o(\d+)", rec["requests"][0]["path"])
                if m:
                    idx = int(m.group(1))
            check_call(c, idx, lab, vals, bo, rec, add)
            ncalls += 1
            if vals or bo is not None:
                nontriv.append(f"{ops.describe(c)}|{lab}|refs={refs}")
        outcomes.add("driven")
    return {"findings": found, "evals": ncalls, "nontrivial": nontriv, "nontrivial_multi": True,
            "outcome": "+".join(sorted(outcomes)) + (":finding" if found else ""),
            "sample": {"operation": ops.describe(cs[0]), "calls": len(assignments(cs[0])), "first_assignment": assignments(cs[0])[0][0]}}
