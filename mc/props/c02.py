"""C02 - schema-to-model structure fidelity (no silently lost fields)."""
from __future__ import annotations

from .. import observe, sandbox
from ..ref import schema as refschema
from ..space import graphs

PID = "C02"
LEVEL = "exploration"
RULE = ("all schema graphs G(N,d): N named object schemas x <=d out-edges of 9 kinds (ref, array-of-ref, inline object, array of "
        "inline object, additionalProperties, oneOf, anyOf, allOf parent, allOf parent + required-only member) to any node incl. "
        "itself x required flag x every declaration order x neutral / prefix-related names; each document is loaded through the "
        "real loader and compared with an independent reference resolver; plus wide documents (170 schemas per edge kind followed by deep probes) and "
        "models with colliding / styled property names. non-trivial = distinct graphs containing a reference cycle")
ASSUMPTIONS = [
    "the reference resolver (mc/ref/schema.py) defines the expected field sets: allOf = union of the resolved members' "
    "properties and required lists",
    "inline objects may be promoted to models under any name; unions/maps may be spelled in any way",
    "allOf-only cycles have no finite meaning and are excluded from the space",
]
BOUND = {"quick": "G(2,1) all 9 kinds x required flag; G(3,1) over {ref,arr,map,allof}; G(2,2) over {ref,arr,inl,oneof,allof}; all orders, both name menus",
         "thorough": "G(2,1), G(3,1) all 9 kinds (required flag on ref only), G(2,2) all 9 kinds without required flag; all orders, both name menus"}


def wide_doc(kind, width=170):
    """`width` independent schemas that each use one edge kind, followed by probes that are nested three levels deep and by a
    schema reached through a two-step reference chain declared top-down: anything that accumulates per schema (depth, caches)
    shows up in the probes"""
    names = ["Leaf"]
    schemas = {"Leaf": {"type": "object", "required": ["v"], "properties": {"v": {"type": "integer"}, "w": {"type": "string"}}}}
    for i in range(width):
        props = {"v": {"type": "integer"}, "w": {"type": "string"}}
        if kind in graphs.ALLOF_KINDS:
            schemas[f"W{i}"] = {"allOf": [graphs.R("Leaf"), {"type": "object", "properties": {f"x{i}": {"type": "string"}}}]}
        else:
            props["e"] = graphs.edge_schema(kind, "Leaf")
            schemas[f"W{i}"] = {"type": "object", "required": ["v"], "properties": props}
    schemas["Probe"] = {"type": "object", "properties": {"a": {"type": "object", "properties": {"b": {"type": "object", "properties": {
        "c": {"type": "object", "properties": {"d": {"type": "integer"}}}}}}}}}
    schemas["LateHolder"] = {"type": "object", "properties": {"person": graphs.R("LatePerson")}}
    schemas["LatePerson"] = {"type": "object", "properties": {"address": graphs.R("LateAddress"), "name": {"type": "string"}}}
    schemas["LateAddress"] = {"type": "object", "required": ["city"], "properties": {"city": {"type": "string"}, "zip": {"type": "string"}, "floor": {"type": "integer"}}}
    return {"openapi": "3.0.3", "info": {"title": "W", "version": "1"}, "paths": {}, "components": {"schemas": schemas}}


def cases(tier, seed):
    from ..space import fields as _fields

    extra = [{"kind": "wide", "edge": k} for k in graphs.ALL_KINDS]
    # every field kind x required x default (IR and emitted code must agree with the reference on wire key, required flag and structural kind)
    fm = _fields.collisions(tier) + [c for c in _fields.singles(tier) if c["fields"][0]["kind"] == "string" or c["fields"][0]["name"] == "val"]
    extra += [{"kind": "fieldmodels", "models": fm[i:i + 8]} for i in range(0, len(fm), 8)]
    # schema-level keyword combinations: own properties x {type written / not written} x composition keyword next to them x additionalProperties x nullable
    for typed in (True, False):
        for comp in SHAPE_COMP:
            for addl in (None, "schema", True):
                for nullable in (False, True):
                    extra.append({"kind": "shape", "typed": typed, "comp": comp, "addl": addl, "nullable": nullable})
    # every representative document: the declared component schemas against the reference (the operations of the document are loaded too)
    from ..space import docs as _docs

    for dn in _docs.names(with_inputs=False):
        if dn == "names":
            continue  # schema names that collapse after derivation are C20's subject; that document exists to exercise them
        extra.append({"kind": "doc", "doc": dn})
    return extra + graph_cases(tier, seed)


SHAPE_COMP = ["none", "oneOf", "anyOf", "allOf", "allOf+req-before", "allOf+req-after", "oneOf-inline"]


def shape_doc(case):
    R = graphs.R
    schemas = {"Circle": {"type": "object", "required": ["r"], "properties": {"r": {"type": "number"}}},
               "Square": {"type": "object", "required": ["s"], "properties": {"s": {"type": "number"}, "t": {"type": "string"}}}}
    s = {"properties": {"v": {"type": "integer"}, "w": {"type": "string"}}, "required": ["v"]}
    if case["typed"]:
        s["type"] = "object"
    c = case["comp"]
    if c in ("oneOf", "anyOf"):
        s[c] = [R("Circle"), R("Square")]
    elif c == "oneOf-inline":
        s["oneOf"] = [{"required": ["v"]}, {"required": ["w"]}]   # "at least one of" idiom: constraints only, no new fields
    elif c == "allOf":
        s["allOf"] = [R("Circle")]
    elif c == "allOf+req-before":
        s["allOf"] = [{"required": ["t"]}, R("Square")]          # requirement-only member listed before the member that brings the property
    elif c == "allOf+req-after":
        s["allOf"] = [R("Square"), {"required": ["t", "w"]}]     # requires an inherited and an own (sibling) property
    if case["addl"] == "schema":
        s["additionalProperties"] = {"type": "string"}
    elif case["addl"] is True:
        s["additionalProperties"] = True
    if case["nullable"]:
        s["nullable"] = True
    schemas["Shape"] = s
    schemas["Holder"] = {"type": "object", "properties": {"one": R("Shape"), "many": {"type": "array", "items": R("Shape")}}}
    return sandbox.base_doc(schemas)


def graph_cases(tier, seed):
    def mark(cs, code):
        for c in cs:
            c["code"] = code
        return cs

    out = mark(graphs.graphs(2, 1), True)
    if tier == "quick":
        out += mark(graphs.graphs(2, 2, kinds=["ref", "arr", "oneof", "allof"], req_flags=(0,)), True)
        out += mark(graphs.graphs(2, 2, kinds=["ref", "arr", "inl", "oneof", "allof"], req_flags=(0,)), False)
        out += mark(graphs.graphs(3, 1, kinds=["ref", "arr", "map", "allof"], req_flags=(0,)), False)
    else:
        out += mark(graphs.graphs(2, 2, kinds=["ref", "arr", "inl", "oneof", "allof"], req_flags=(0,)), True)
        out += mark(graphs.graphs(3, 1, kinds=["ref", "arr", "map", "allof"], req_flags=(0,)), True)
        out += mark(graphs.graphs(3, 1, req_flags=(0,)), False)
        out += mark(graphs.graphs(2, 2, req_flags=(0,)), False)
    # dedupe (G(2,1) is contained in G(2,2) for the shared kinds)
    seen = set()
    uniq = []
    for c in out:
        k = repr((c["menu"], c["order"], c["nodes"]))
        if k not in seen:
            seen.add(k)
            uniq.append(c)
    return uniq


def _sccs(nodes):
    n = len(nodes)
    reach = [[False] * n for _ in range(n)]
    for i in range(n):
        reach[i][i] = True
        for k, t, r in nodes[i]:
            reach[i][t] = True
    for k in range(n):
        for i in range(n):
            for j in range(n):
                if reach[i][k] and reach[k][j]:
                    reach[i][j] = True
    return [frozenset(j for j in range(n) if reach[i][j] and reach[j][i]) for i in range(n)]


def context_of(case, victim):
    """Root-cause context of a discrepancy on `victim`: the edge kinds inside its strongly connected component, the
    edge kinds inside the components it inherits from through allOf, the name menu and whether the victim is the first
    declared member of its component. Edges outside these components do not take part in the signature."""
    nodes = case["nodes"]
    sccs = _sccs(nodes)
    scc = sccs[victim]

    def kinds_in(comp):
        return sorted({k for u in comp for k, t, r in nodes[u] if t in comp})

    own = kinds_in(scc)
    parents = [t for k, t, r in nodes[victim] if k in graphs.ALLOF_KINDS]
    pk = sorted({k for p in parents for k in kinds_in(sccs[p])} | {k for k, t, r in nodes[victim] if k in graphs.ALLOF_KINDS})
    first = min(case["order"].index(u) for u in scc) == case["order"].index(victim)
    ctx = f"scc={'+'.join(own) or '-'}"
    if parents:
        ctx += f";inherits={'+'.join(pk)}"
    ctx += f";names={case['menu']}"
    if len(scc) > 1:
        ctx += f";first={int(first)}"
    return ctx


def compare(level, case, exp, got, out):
    """appends findings; signature = level | clause | discrepancy, key = the exact (graph, victim) input"""
    seen = set()

    def add(clause, disc, name, msg):
        sig = f"C02|{level}|{clause}|{disc}"
        key = f"{case['menu']}|{graphs.describe(case)}|{name}"
        if (sig, key) in seen:
            return
        seen.add((sig, key))
        out.append({"sig": sig, "key": key, "msg": f"{name}: {msg} in {graphs.describe(case)} [{context_of(case, graphs.MENUS[case['menu']].index(name))}]"})

    for name, e in exp.items():
        g = got.get(name, {"count": 0})
        if g["count"] == 0:
            add("schema-missing", "no model for a declared schema", name, "missing")
            continue
        if g["count"] > 1:
            add("schema-duplicated", "more than one model for a declared schema", name, f"x{g['count']}")
        if e["kind"] == "object":
            if g.get("kind") != "object":
                add("kind-mismatch", f"object->{observe.kind_name(g.get('kind'))}", name, f"got {g.get('kind')}")
                continue
            if e["fields"] and not g["fields"]:
                add("fields-lost", "model has zero fields", name, "no fields")
                continue
            for clause, disc, detail in observe.diff_fields(e["fields"], g["fields"]):
                add(clause, disc, name, f"{detail}; expected {e['fields']} got {g['fields']}")


def run_other(case):
    """wide documents and field-name models: expected field sets from the reference resolver vs IR and emitted code"""
    import os

    from ..space import fields as _fields

    if case["kind"] == "wide":
        doc = wide_doc(case["edge"])
        label = f"wide|{case['edge']}|170 schemas"
    elif case["kind"] == "doc":
        from ..space import docs as _docs

        doc = _docs.get(case["doc"])
        label = f"document|{case['doc']}"
        if not (doc.get("components") or {}).get("schemas"):
            return {"findings": [], "outcome": "doc:no-schemas", "nontrivial": None}
    elif case["kind"] == "shape":
        doc = shape_doc(case)
        label = f"shape|type={'object' if case['typed'] else 'absent'}|{case['comp']}|additionalProperties={case['addl']}|nullable={case['nullable']}"
    else:
        doc = _fields.pack_doc(case["models"])
        label = "fieldmodels|" + ";".join(_fields.describe(m) for m in case["models"])
    exp = refschema.expected(doc)
    found = []
    seen = set()
    disc_props = {s_["discriminator"]["propertyName"] for s_ in ((doc.get("components") or {}).get("schemas") or {}).values()
                  if isinstance(s_, dict) and isinstance(s_.get("discriminator"), dict) and s_["discriminator"].get("propertyName")}

    def cmp(level, got):
        for name, e in exp.items():
            if e.get("kind") != "object":
                continue
            if case["kind"] == "fieldmodels" and not name.startswith("M"):
                continue
            g = got.get(name, {"count": 0})
            where = f"{name} in {label[:200]}"
            key = f"{label[:120]}|{name}"

            def add(clause, disc, msg):
                sig = f"C02|{level}|{clause}|{disc}"
                if (sig, key) not in seen:
                    seen.add((sig, key))
                    found.append({"sig": sig, "key": key, "msg": f"{msg} | {where}"})

            if g["count"] == 0:
                add("schema-missing", "no model for a declared schema", "missing")
                continue
            if g.get("kind") != "object":
                add("kind-mismatch", f"object->{observe.kind_name(g.get('kind'))}", str(g.get("kind")))
                continue
            if e["fields"] and not g["fields"]:
                add("fields-lost", "model has zero fields", "no fields")
                continue
            for clause, disc, detail in observe.diff_fields(e["fields"], g["fields"]):
                if disc == "str->enum" and detail.split(";")[0].strip() in disc_props:
                    continue  # the discriminator property of a variant is narrowed to the enum of the mapping's values: same wire type
                add(clause, disc, f"{detail}; expected {e['fields']} got {g['fields']}")

    try:
        ir = sandbox.load_ir(doc)
    except Exception as e:
        return {"findings": [{"sig": f"C02|ir|load-failed|{type(e).__name__}", "key": label[:150], "msg": f"{str(e)[:200]} | {label[:200]}"}], "outcome": "rejected"}
    cmp("ir", observe.ir_manifest(ir, doc))
    with sandbox.scratch() as d:
        root = os.path.join(d, "proj")
        files, err = sandbox.generate(doc, root)
        if err is None:
            got, idx = observe.code_manifest(os.path.join(root, "cli"), doc)
            for fn, msg in idx.errors:
                found.append({"sig": f"C02|code|model-file-unparsable|{msg}", "key": f"{label[:120]}|{fn}", "msg": f"{fn} | {label[:200]}"})
            cmp("code", got)
    return {"findings": found, "evals": 2, "nontrivial": label[:200], "outcome": case["kind"] + (":finding" if found else ":ok"),
            "sample": {"case": label[:200], "schemas": len(exp)}}


def run_case(case):
    import os

    if case.get("kind") in ("wide", "fieldmodels", "shape", "doc"):
        return run_other(case)
    doc = graphs.doc_of(case)
    cyc = graphs.has_cycle(case["nodes"])
    found = []
    exp = refschema.expected(doc)
    outcome = "cyclic" if cyc else "acyclic"
    try:
        ir = sandbox.load_ir(doc)
    except RecursionError:
        return {"findings": [{"sig": "C02|ir|load-failed|RecursionError", "msg": graphs.describe(case)}], "outcome": "recursion"}
    except Exception as e:
        # a rejected document is outside the quantifier (C07/C08 own visible failure / termination)
        return {"findings": [], "outcome": "rejected:" + type(e).__name__, "nontrivial": repr(case) if cyc else None}
    compare("ir", case, exp, observe.ir_manifest(ir, doc), found)
    evals = 1
    if case.get("code"):
        with sandbox.scratch() as d:
            root = os.path.join(d, "proj")
            files, err = sandbox.generate(doc, root, output_package="cli")
            if err is not None:
                outcome += ":gen-rejected:" + type(err).__name__
            else:
                evals += 1
                got, idx = observe.code_manifest(os.path.join(root, "cli"), doc)
                for fn, msg in idx.errors:
                    found.append({"sig": f"C02|code|model-file-unparsable|{msg}", "key": f"{case['menu']}|{graphs.describe(case)}|{fn}",
                                  "msg": f"{fn} in {graphs.describe(case)}"})
                compare("code", case, exp, got, found)
    findings = found
    return {"findings": findings, "nontrivial": repr(case) if cyc else None, "evals": evals,
            "outcome": outcome + (":finding" if findings else ":ok"),
            "sample": {"graph": graphs.describe(case), "menu": case["menu"], "code_level": bool(case.get("code"))}}
