"""C15 - spec text can never alter the structure of generated code (complete position x payload matrix)."""
from __future__ import annotations

import ast
import copy
import itertools
import os

from .. import sandbox
from ..kernel import HarnessError

PID = "C15"
LEVEL = "exploration"
RULE = ("complete matrix: every text-bearing position of a reference document (30 positions: titles, summaries, descriptions of every kind, enum values, string "
        "defaults, property / parameter / header names, tags, discriminator values, media types, examples) x every hostile payload of a 38-entry dictionary (quotes, "
        "triple quotes, backslashes, trailing backslash, LF, CR, CRLF, escaped triple quote, #, braces, %s, tab, form feed, NEL, LS, control char, non-ASCII, emoji, "
        "outer spaces, keyword, 300-char line); each document is generated and every emitted file is parsed: the AST skeleton (node types only; constants and "
        "identifiers erased) must equal the one of the same document with the benign payload, and literals that carry meaning must evaluate to the original "
        "string. non-trivial = distinct (position, payload) documents")
ASSUMPTIONS = [
    "the benign twin keeps the role of the text (media type text/x<payload> vs text/xtxt; names stay unique in their namespace)",
    "skeleton = per emitted file the tree of ast node class names; file names are ignored for positions that legitimately rename files (tags)",
    "name positions whose payload has no identifier characters at all are name-derivation cases (C20) and are reported under their own clause here",
]
BOUND = {"quick": "35 positions x 57 payloads = 1995 documents", "thorough": "+ every string of length<=3 over {\", \\\\, LF, a} at every position (2268) + all position pairs for 4 payloads"}
CHUNK = 4

PAYLOADS = {
    "dquote": 'a"b', "squote": "a'b", "triple-dquote": 'a"""b', "triple-squote": "a'''b", "backslash": "a\\b", "trailing-backslash": "ab\\",
    "lf": "a\nb", "cr": "a\rb", "crlf": "a\r\nb", "escaped-triple": 'a\\"""b', "hash": "a#b", "braces": "a{x}b", "percent": "a%sb", "tab": "a\tb",
    "formfeed": "a\x0cb", "nel": "a\u0085b", "ls": "a b", "ctrl": "a\x01b", "latin": "aéb", "cjk": "a名b", "emoji": "a😀b", "outer-space": " ab ",
    "keyword": "class", "keyword-capitalised": "From", "keyword-upper": "IMPORT", "long": "a" + "x" * 300 + "b", "backslash-n-literal": "a\\nb", "quote-end": 'ab"',
    # length x special character interplay (truncation / wrapping code paths)
    "long-lf": "a" + "x" * 60 + "\n" + "y" * 60 + "b", "long-cr": "a" + "x" * 60 + "\r" + "y" * 60 + "b",
    "long-lf-code": "a" + "x" * 40 + "\n    is_admin: bool = True  # " + "y" * 70,
    "quad-dquote": 'a' + '"' * 4 + 'b', "five-dquote": 'a' + '"' * 5 + 'b', "six-dquote": 'a' + '"' * 6 + 'b', "seven-dquote": 'a' + '"' * 7 + 'b',
    "quote-start": '"ab', "quad-squote": "a" + "'" * 4 + "b", "docstring-in-docstring": 'see ' + '"' * 4 + 'opaque" cursor' + '"' * 3,
    "long-triple": "a" + "x" * 150 + '"""' + "y" * 150 + "b", "long-backslash-end": "a" + "x" * 120 + "\\",
    # words that mean something in the EMITTED code: a generator that inspects its own rendered text must not be steered by them
    "word-asynciterator": "returns an AsyncIterator of items", "word-default-factory": "uses default_factory internally", "word-yield": "yield per item",
    "word-field": "see field(default=None)", "word-optional": "Optional[str] or List[int]", "word-type-checking": "if TYPE_CHECKING: import x",
    "word-notimplemented": "raise NotImplementedError()", "word-async-def": "async def handler(self) -> None:", "word-dataclass": "@dataclass class X:",
    # hostile text on the SECOND line of a multi-line text (sites that clean a text line by line)
    "lf-then-triple-dquote": 'first line\nsecond """ line', "lf-then-backslash-end": "first line\nsecond line\\",
    "lf-then-close-reopen": 'first\n"""\n    injected = 1\n    """tail', "lf-then-triple-squote": "first line\nsecond \'\'\' line",
    # alphanumeric for a regular expression, not legal in a Python identifier
    "superscript": "area_m²", "subscript": "CO₂", "fraction": "T½x", "circled": "①x",
}
BENIGN = "atxtb"

POSITIONS = ["info.title", "info.description", "op.summary", "op.description", "param.description", "response.description", "schema.description",
             "property.description", "enum.value", "string.default", "property.name", "query.name", "header.name", "tag", "discriminator.value",
             "media.type", "schema.title", "requestBody.description", "enum.description", "items.description", "example", "tag.description",
             "alias-union.description", "alias-array.description", "alias-scalar.description",
             "server.description", "externalDocs.description", "inline-enum.value", "pathitem-param.description", "error-response.description",
             "path.name",
             # descriptions of schemas that are rendered by other code paths than an object with properties
             "empty-schema.description", "free-object.description", "map-schema.description", "allof-schema.description"]
NAME_POSITIONS = {"property.name", "query.name", "header.name", "tag"}
HEADER_SAFE = {"header.name"}


def R(n):
    return {"$ref": "#/components/schemas/" + n}


def build(texts):
    """reference document; texts: {position: string} (missing positions use the benign text)"""
    prefix = {"query.name": "q", "header.name": "h", "property.name": "p", "tag": "t", "path.name": "v", "enum.value": "e", "inline-enum.value": "i", "discriminator.value": "d"}

    def t(k):
        # benign text per position; positions that share a namespace get distinct benign names
        return texts[k] if k in texts else prefix.get(k, "") + BENIGN

    media = "text/x" + t("media.type")
    return {
        "openapi": "3.0.3",
        "info": {"title": t("info.title"), "version": "1.0.0", "description": t("info.description")},
        "servers": [{"url": "https://h.test", "description": t("server.description")}],
        "externalDocs": {"url": "https://h.test/docs", "description": t("externalDocs.description")},
        "tags": [{"name": t("tag"), "description": t("tag.description")}],
        "paths": {
            "/things/{id}": {
                "parameters": [{"name": "id", "in": "path", "required": True, "schema": {"type": "integer"}, "description": t("pathitem-param.description")}],
                "get": {
                    "operationId": "getThing", "tags": [t("tag")], "summary": t("op.summary"), "description": t("op.description"),
                    "parameters": [
                        {"name": t("query.name"), "in": "query", "schema": {"type": "string"}, "description": t("param.description")},
                        {"name": "fixedq", "in": "query", "schema": {"type": "string"}},
                        {"name": t("header.name"), "in": "header", "schema": {"type": "string"}},
                    ],
                    "responses": {
                        "200": {"description": t("response.description"), "content": {"application/json": {"schema": R("Thing"), "example": {"note": t("example")}}}},
                        "404": {"description": t("error-response.description")},
                    },
                },
                "put": {
                    "operationId": "putThing", "tags": [t("tag")],
                    "requestBody": {"description": t("requestBody.description"), "required": True, "content": {"application/json": {"schema": R("Thing")}}},
                    "responses": {"200": {"description": "ok", "content": {media: {"schema": {"type": "string"}}}}},
                },
            },
            # a path variable on an operation with two request media types (that operation is rendered by a code path of its own)
            "/photos/{%s}" % t("path.name"): {"post": {
                "operationId": "uploadPhoto", "tags": [t("tag")],
                "parameters": [{"name": t("path.name"), "in": "path", "required": True, "schema": {"type": "string"}}],
                "requestBody": {"required": True, "content": {"application/json": {"schema": R("Thing")},
                                                              "application/octet-stream": {"schema": {"type": "string", "format": "binary"}}}},
                "responses": {"204": {"description": "stored"}}}},
            "/animals": {"get": {"operationId": "listAnimals", "tags": [t("tag")], "responses": {"200": {"description": "ok", "content": {
                "application/json": {"schema": {"type": "array", "items": R("Animal")}}}}}}},
        },
        "components": {"schemas": {
            "Thing": {"type": "object", "title": t("schema.title"), "description": t("schema.description"), "required": ["id"], "properties": {
                "id": {"type": "integer"},
                t("property.name"): {"type": "string", "description": t("property.description")},
                "fixed": {"type": "string"},
                "withDefault": {"type": "string", "default": t("string.default")},
                "color": R("Color"),
                "mode": {"type": "string", "enum": ["m1", t("inline-enum.value")]},
                "notes": {"type": "array", "description": "list", "items": {"type": "string", "description": t("items.description")}},
            }},
            "Color": {"type": "string", "description": t("enum.description"), "enum": ["red", t("enum.value"), "blue"]},
            "Cat": {"type": "object", "required": ["kind"], "properties": {"kind": {"type": "string"}, "lives": {"type": "integer"}}},
            "Dog": {"type": "object", "required": ["kind"], "properties": {"kind": {"type": "string"}, "bark": {"type": "boolean"}}},
            "Names": {"type": "array", "description": t("alias-array.description"), "items": {"type": "string"}},
            "Count": {"type": "integer", "description": t("alias-scalar.description")},
            "Marker": {"type": "object", "description": t("empty-schema.description")},
            "Extra": {"type": "object", "additionalProperties": True, "description": t("free-object.description")},
            "Counts": {"type": "object", "additionalProperties": {"type": "integer"}, "description": t("map-schema.description")},
            "SubThing": {"description": t("allof-schema.description"), "allOf": [R("Cat"), {"type": "object", "properties": {"extraNote": {"type": "string"}}}]},
            "Animal": {"description": t("alias-union.description"), "oneOf": [R("Cat"), R("Dog")], "discriminator": {"propertyName": "kind", "mapping": {
                t("discriminator.value"): "#/components/schemas/Cat", "dog": "#/components/schemas/Dog"}}},
        }},
    }


def cases(tier, seed):
    out = [{"texts": {p: PAYLOADS[k]}, "label": f"{p}|{k}"} for p in POSITIONS for k in PAYLOADS]
    if tier != "quick":
        alpha = ['"', "\\", "\n", "a"]
        strs = ["".join(t) for n in (1, 2, 3) for t in itertools.product(alpha, repeat=n)]
        for p in POSITIONS:
            for s in strs:
                out.append({"texts": {p: "q" + s + "z"}, "label": f"{p}|str:{s!r}"})
        for a, b in itertools.combinations(POSITIONS, 2):
            for k in ("triple-dquote", "trailing-backslash", "lf", "cr"):
                out.append({"texts": {a: PAYLOADS[k], b: PAYLOADS[k]}, "label": f"{a}+{b}|{k}"})
    return out


# ----------------------------------------------------------------------------------------------
def skeleton(node):
    """tree of node class names; the members of a module / class body and the entries of a dict literal are compared as
    multisets (fields and key maps are emitted sorted by name, so a different name legitimately moves a member)"""
    if isinstance(node, ast.AST):
        kids = [skeleton(c) for c in ast.iter_child_nodes(node)]
        if isinstance(node, (ast.Module, ast.ClassDef, ast.Dict)):
            kids = sorted(kids, key=repr)
        return (type(node).__name__, tuple(kids))
    return None


def package_shape(root):
    """{relpath: skeleton | ('unparsable', msg)}; core runtime files excluded (verbatim copies)"""
    shapes = {}
    errors = {}
    pkg = os.path.join(root, "cli")
    for p in sandbox.py_files(pkg):
        rel = os.path.relpath(p, pkg)
        if rel.startswith("core" + os.sep) and os.path.basename(rel) not in ("exception_aliases.py", "__init__.py"):
            continue
        try:
            src = open(p, encoding="utf-8").read()
            tree = ast.parse(src)
            compile(src, rel, "exec", dont_inherit=True)
            shapes[rel] = skeleton(tree)
        except (SyntaxError, ValueError, UnicodeDecodeError) as e:
            errors[rel] = getattr(e, "msg", str(e))
    return shapes, errors


_BASE = {}


def baseline():
    if "shape" not in _BASE:
        with sandbox.scratch() as d:
            root = os.path.join(d, "proj")
            files, err = sandbox.generate(build({}), root)
            if err is not None:
                raise HarnessError(f"the benign reference document is rejected: {err}")
            shapes, errors = package_shape(root)
            if errors:
                raise HarnessError(f"the benign reference document yields unparsable files: {errors}")
            _BASE["shape"] = shapes
    return _BASE["shape"]


def loc(rel):
    rel = rel.replace(os.sep, "/")
    for k in ("models/", "endpoints/", "mocks/", "core/"):
        if rel.startswith(k):
            return k[:-1]
    return rel


def all_constants(root, sub):
    vals = set()
    d = os.path.join(root, "cli", sub)
    paths = sandbox.py_files(d) if os.path.isdir(d) else ([d] if os.path.exists(d) else [])
    for p in paths:
        try:
            tree = ast.parse(open(p, encoding="utf-8").read())
        except SyntaxError:
            continue
        for n in ast.walk(tree):
            if isinstance(n, ast.Constant) and isinstance(n.value, str):
                vals.add(n.value)
    return vals


def literal_checks(root, texts, add):
    """literals that carry meaning must evaluate to exactly the original strings"""
    where = {"enum.value": ("models", "enum member value"), "inline-enum.value": ("models", "inline enum member value"),
             "string.default": ("models", "string default"), "property.name": ("models", "wire key of a renamed property"),
             "query.name": ("endpoints", "query parameter name"), "header.name": ("endpoints", "header parameter name"),
             "discriminator.value": ("models", "discriminator mapping value")}
    for pos, s in texts.items():
        if pos in where:
            sub, what = where[pos]
            if s not in all_constants(root, sub):
                add(pos, f"literal-differs|{what} does not evaluate to the original string", f"{s!r} is not among the string constants under {sub}/")


def run_case(case):
    base = baseline()
    texts = case["texts"]
    label = case["label"]
    positions = "+".join(sorted(texts)) if len(texts) == 1 else "position-pair"
    found = []
    seen = set()

    def add(pos, disc, detail):
        sig = f"C15|{pos}|{disc}"
        if sig not in seen:
            seen.add(sig)
            found.append({"sig": sig, "key": label, "msg": f"{detail} | {label}"})

    # name positions with no identifier character: name derivation (C20), own clause
    with sandbox.scratch() as d:
        root = os.path.join(d, "proj")
        files, err = sandbox.generate(build(texts), root)
        if err is not None:
            return {"findings": [], "outcome": "rejected:" + type(err).__name__, "nontrivial": label}
        shapes, errors = package_shape(root)
        for rel, msg in sorted(errors.items()):
            import re

            m = re.sub(r"'[^']*'", "'*'", str(msg))
            m = re.sub(r"\d+", "N", m).split("(")[0].strip()[:80]
            add(positions, f"unparsable|{loc(rel)}|{m}", f"{rel}: {msg}")
        renames = bool(set(texts) & {"tag"})
        if not errors:
            if renames:
                a = sorted(map(repr, base.values()))
                b = sorted(map(repr, shapes.values()))
                if a != b:
                    add(positions, "shape-differs|the multiset of file skeletons differs from the benign twin", f"{len(base)} vs {len(shapes)} files")
            else:
                for rel in sorted(set(base) | set(shapes)):
                    if rel not in shapes:
                        add(positions, f"shape-differs|{loc(rel)}|file missing compared with the benign twin", rel)
                    elif rel not in base:
                        add(positions, f"shape-differs|{loc(rel)}|extra file compared with the benign twin", rel)
                    elif base[rel] != shapes[rel]:
                        add(positions, f"shape-differs|{loc(rel)}|classes / functions / statements differ from the benign twin", rel)
        literal_checks(root, texts, add)
    return {"findings": found, "nontrivial": label, "outcome": "matrix:" + ("finding" if found else "ok"),
            "sample": {"position": positions, "payload": label.split("|", 1)[1], "files_compared": len(shapes)}}
