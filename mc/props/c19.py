"""C19 - output depends on the document's meaning, not its rendering (metamorphic, exhaustive over small orbits)."""
from __future__ import annotations

import copy
import itertools
import json
import os

from .. import observe, sandbox
from ..kernel import HarnessError
from ..space import docs, graphs

PID = "C19"
LEVEL = "exploration"
RULE = ("(a) every representative document x renderings {YAML block, YAML flow, YAML with unquoted numeric status keys} vs its JSON rendering, "
        "through the real file loader and generator (file hashes + manifests must be equal); (b) every schema graph of G(2,1) and the reduced "
        "G(3,1)/G(2,2) x ALL declaration orders x property-order reversal: the IR manifest (and for the small slice the emitted models) must be "
        "identical across the orbit; (c) every representative document x all path-order permutations (<=4 paths: all, else rotations+reversal) "
        "and operation-order reversal: client manifests equal. non-trivial = distinct orbit members that differ from the base rendering/order")
ASSUMPTIONS = [
    "manifests are the ones of mc/observe.py (models -> fields: required, kind; clients -> method signatures) read through ast",
    "documents in the orbit have no name collisions (the statement excludes them), except where a representative document exercises them on purpose: "
    "those are compared only for renderings, not for reorderings",
]
BOUND = {"quick": "20 documents x 4 renderings (block YAML, flow YAML, YAML with unquoted integer keys, tab-indented JSON in a file named .yaml); 202 field-order orbits; G(2,1) all kinds + G(3,1|4 kinds, prefix names) + G(2,2|4 kinds) x all orders; path / method / response / media-type / schema / property reorderings of 18 documents",
         "thorough": "same + G(3,1) 9 kinds + G(2,2) 9 kinds at IR level, G(2,1) at code level"}

RENDERINGS = ["yaml", "yaml-flow", "yaml-intkeys", "json-tabs-yaml-name"]   # the last: JSON indented with tabs in a file called *.yaml
NO_REORDER = {"names", "input/test_name_collision_spec.json"}


def unordered_graphs(n, d, **kw):
    gs = graphs.graphs(n, d, orders="one", **kw)
    return gs


FIELD_KINDS = ["string", "integer", "str-enum", "nullable-enum", "nullable-string", "nullable-inline-object", "inline-object", "nullable-array",
               "arr-string", "ref", "nullable-ref", "date-time", "ref-enum", "oneof-ref-string"]


def cases(tier, seed):
    out = []
    # property-order orbit of every ordered pair / triple of field kinds (required and optional): the emitted annotations must not depend on order
    import itertools as _it

    for req in (True, False):
        for a, b in _it.combinations(FIELD_KINDS, 2):
            out.append({"kind": "fieldorder", "kinds": [a, b], "required": req})
    for a, b, c in _it.combinations(["nullable-enum", "str-enum", "nullable-inline-object", "inline-object", "nullable-string", "string"], 3):
        out.append({"kind": "fieldorder", "kinds": [a, b, c], "required": True})
    for name in docs.names():
        for r in RENDERINGS:
            out.append({"kind": "render", "doc": name, "rendering": r})
    for name in docs.names():
        if name in NO_REORDER:
            continue
        out.append({"kind": "paths", "doc": name})
    gs = unordered_graphs(2, 1)
    if tier == "quick":
        gs += unordered_graphs(3, 1, kinds=["ref", "arr", "map", "allof"], req_flags=(0,), menus=("prefix",))
        gs += unordered_graphs(2, 2, kinds=["ref", "arr", "oneof", "allof"], req_flags=(0,))
    else:
        gs += unordered_graphs(3, 1, req_flags=(0,))
        gs += unordered_graphs(2, 2, req_flags=(0,))
    seen = set()
    for g in gs:
        k = repr((g["menu"], g["nodes"]))
        if k in seen:
            continue
        seen.add(k)
        c = dict(g)
        c["kind"] = "orders"
        c["code"] = tier != "quick" and len(g["nodes"]) == 2 and all(len(e) <= 1 for e in g["nodes"])
        out.append(c)
    return out


# ----------------------------------------------------------------------------------------------
def int_keys(doc):
    """the document as a YAML author may write it: numeric status codes and numeric discriminator-mapping keys left unquoted"""
    d = copy.deepcopy(doc)
    for p, item in (d.get("paths") or {}).items():
        for m, op in item.items():
            if isinstance(op, dict) and isinstance(op.get("responses"), dict):
                op["responses"] = {(int(k) if isinstance(k, str) and k.isdigit() else k): v for k, v in op["responses"].items()}

    def walk(node):
        if isinstance(node, dict):
            disc = node.get("discriminator")
            if isinstance(disc, dict) and isinstance(disc.get("mapping"), dict):
                disc["mapping"] = {(int(k) if isinstance(k, str) and k.isdigit() else k): v for k, v in disc["mapping"].items()}
            for v in node.values():
                walk(v)
        elif isinstance(node, list):
            for v in node:
                walk(v)

    walk(d.get("components") or {})
    return d


def tree_hashes(root):
    snap = sandbox.snapshot(root, with_mtime=False)
    return {k: v[2] for k, v in snap.items() if v[0] == "f"}


def gen_tree(doc, fmt):
    """generate and return (hashes, models manifest, client manifest) or ('rejected', type)"""
    with sandbox.scratch() as d:
        root = os.path.join(d, "proj")
        files, err = sandbox.generate(doc, root, fmt=fmt)
        if err is not None:
            return {"rejected": type(err).__name__}
        pkg = os.path.join(root, "cli")
        mm, idx = observe.code_manifest(pkg, doc if "components" in doc else {"components": {"schemas": {}}})
        cm, cerrs = observe.client_manifest(pkg)
        return {"hashes": tree_hashes(root), "models": mm, "clients": cm}


def first_diff(a, b):
    for k in sorted(set(a) | set(b)):
        if a.get(k) != b.get(k):
            return k, a.get(k), b.get(k)
    return None


def run_render(case):
    doc = docs.get(case["doc"], os.environ.get("VERIF_REPO", "/repo"))
    r = case["rendering"]
    base = gen_tree(doc, "json")
    if r == "yaml-intkeys":
        other = gen_tree(int_keys(doc), "yaml")
    elif r == "json-tabs-yaml-name":
        other = gen_tree(doc, "json-tabs-yaml-name")
    else:
        other = gen_tree(doc, r)
    found = []
    label = f"{case['doc']}|{r}"
    if "rejected" in base:
        return {"findings": [], "outcome": "base-rejected", "nontrivial": None}
    if "rejected" in other:
        found.append({"sig": f"C19|rendering|{r}|accepted as JSON but rejected in this rendering", "key": label,
                      "msg": f"{label}: {other['rejected']}"})
    else:
        if other["clients"] != base["clients"]:
            k = first_diff(base["clients"], other["clients"])
            found.append({"sig": f"C19|rendering|{r}|operations / signatures differ", "key": label, "msg": f"{label}: {k}"})
        if other["models"] != base["models"]:
            k = first_diff(base["models"], other["models"])
            found.append({"sig": f"C19|rendering|{r}|models differ", "key": label, "msg": f"{label}: {k}"})
        if not found and other["hashes"] != base["hashes"]:
            k = first_diff(base["hashes"], other["hashes"])
            found.append({"sig": f"C19|rendering|{r}|file contents differ", "key": label, "msg": f"{label}: {k[0]}"})
    return {"findings": found, "evals": 2, "nontrivial": label, "outcome": "render:" + ("differs" if found else "same"),
            "sample": {"document": case["doc"], "rendering": r, "files": len(base.get("hashes", {}))}}


def path_perms(paths):
    keys = list(paths)
    if len(keys) <= 1:
        return []
    if len(keys) <= 4:
        perms = [p for p in itertools.permutations(keys) if list(p) != keys]
    else:
        perms = [tuple(reversed(keys))] + [tuple(keys[i:] + keys[:i]) for i in range(1, len(keys))]
    return perms


def _kwonly_sorted(clients):
    """signatures with their keyword-only parameters (after `*`) in sorted order: their order carries no meaning"""
    import re as _re

    def norm(sig):
        if not isinstance(sig, str) or ", *, " not in sig:
            return sig
        m = _re.match(r"^(.*?\(.*?), \*, (.*)\)( -> .*)$", sig, _re.S)
        if not m:
            return sig
        parts, depth, cur = [], 0, ""
        for ch in m.group(2):
            if ch in "[(":
                depth += 1
            elif ch in "])":
                depth -= 1
            if ch == "," and depth == 0:
                parts.append(cur.strip())
                cur = ""
            else:
                cur += ch
        parts.append(cur.strip())
        return f"{m.group(1)}, *, {', '.join(sorted(parts))}){m.group(3)}"

    return {c: {k: ([norm(x) for x in v] if isinstance(v, list) else norm(v)) for k, v in ms.items()} for c, ms in clients.items()}


def run_paths(case):
    doc = docs.get(case["doc"], os.environ.get("VERIF_REPO", "/repo"))
    base = gen_tree(doc, "json")
    if "rejected" in base:
        return {"findings": [], "outcome": "base-rejected"}
    found = []
    n = 0
    variants = []
    for perm in path_perms(doc.get("paths") or {}):
        d = copy.deepcopy(doc)
        d["paths"] = {k: doc["paths"][k] for k in perm}
        variants.append(("paths:" + ",".join(perm), d))
    # operation order within a path item reversed
    d = copy.deepcopy(doc)
    d["paths"] = {k: dict(reversed(list(v.items()))) for k, v in doc.get("paths", {}).items()}
    variants.append(("methods-reversed", d))
    # the order in which an operation lists its responses
    d = copy.deepcopy(doc)
    changed = False
    for k, v in d.get("paths", {}).items():
        for m, o in v.items():
            if isinstance(o, dict) and isinstance(o.get("responses"), dict) and len(o["responses"]) > 1:
                o["responses"] = dict(reversed(list(o["responses"].items())))
                changed = True
    if changed:
        variants.append(("responses-reversed", d))
        d = copy.deepcopy(d)
        for k, v in d.get("paths", {}).items():
            for m, o in v.items():
                if isinstance(o, dict) and isinstance(o.get("responses"), dict):
                    o["responses"] = dict(sorted(o["responses"].items()))
        variants.append(("responses-sorted", d))
    # the order in which a response / request body lists its media types
    d = copy.deepcopy(doc)
    changed = False
    for k, v in d.get("paths", {}).items():
        for m, o in v.items():
            if not isinstance(o, dict):
                continue
            holders = [r for r in (o.get("responses") or {}).values() if isinstance(r, dict)] + ([o["requestBody"]] if isinstance(o.get("requestBody"), dict) else [])
            for h in holders:
                if isinstance(h.get("content"), dict) and len(h["content"]) > 1:
                    h["content"] = dict(reversed(list(h["content"].items())))
                    changed = True
    if changed:
        variants.append(("content-reversed", d))
    # schema order reversed + property order reversed
    if (doc.get("components") or {}).get("schemas"):
        d = copy.deepcopy(doc)
        sch = doc["components"]["schemas"]
        d["components"]["schemas"] = {k: sch[k] for k in reversed(list(sch))}
        variants.append(("schemas-reversed", d))
        d = copy.deepcopy(doc)
        for k, s in d["components"]["schemas"].items():
            if isinstance(s.get("properties"), dict):
                s["properties"] = dict(reversed(list(s["properties"].items())))
        variants.append(("properties-reversed", d))
    for label, d in variants:
        n += 1
        other = gen_tree(d, "json")
        key = f"{case['doc']}|{label}"
        what = label.split(":")[0]
        if "rejected" in other:
            found.append({"sig": f"C19|reorder|{what}|rejected after reordering", "key": key, "msg": f"{key}: {other['rejected']}"})
            continue
        oc, bc = (other["clients"], base["clients"]) if what != "content-reversed" else (_kwonly_sorted(other["clients"]), _kwonly_sorted(base["clients"]))
        if oc != bc:
            found.append({"sig": f"C19|reorder|{what}|operations / signatures differ", "key": key, "msg": f"{key}: {first_diff(bc, oc)}"})
        if other["models"] != base["models"]:
            found.append({"sig": f"C19|reorder|{what}|models differ", "key": key, "msg": f"{key}: {first_diff(base['models'], other['models'])}"})
    return {"findings": found, "evals": n + 1, "nontrivial": [f"{case['doc']}|{l}" for l, _ in variants], "nontrivial_multi": True,
            "outcome": "reorder:" + ("differs" if found else "same"),
            "sample": {"document": case["doc"], "variants": [l for l, _ in variants][:6]}}


def run_orders(case):
    names = graphs.MENUS[case["menu"]]
    n = len(case["nodes"])
    perms = list(itertools.permutations(range(n)))
    results = []
    found = []
    nontriv = []

    def manifest(c, reverse_props=False):
        doc = graphs.doc_of(c)
        if reverse_props:
            for k, s in doc["components"]["schemas"].items():
                tgt = s["allOf"][-1] if "allOf" in s else s
                tgt["properties"] = dict(reversed(list(tgt["properties"].items())))
        try:
            ir = sandbox.load_ir(doc)
        except Exception as e:
            return {"rejected": type(e).__name__}
        m = {"ir": observe.ir_manifest(ir, doc)}
        if case.get("code"):
            with sandbox.scratch() as d:
                root = os.path.join(d, "proj")
                files, err = sandbox.generate(doc, root)
                if err is None:
                    m["code"] = observe.code_manifest(os.path.join(root, "cli"), doc)[0]
                else:
                    m["code"] = {"rejected": type(err).__name__}
        return m

    base_case = dict(case)
    base_case["order"] = list(perms[0])
    base = manifest(base_case)
    variants = [("order=" + ">".join(names[i] for i in p), dict(case, order=list(p)), False) for p in perms[1:]]
    variants.append(("properties-reversed", base_case, True))
    for label, c, rev in variants:
        other = manifest(c, rev)
        key = f"{case['menu']}|{graphs.describe(base_case)}|{label}"
        nontriv.append(key)
        what = "schema-order" if label.startswith("order=") else "property-order"
        if ("rejected" in base) != ("rejected" in other):
            found.append({"sig": f"C19|{what}|accepted in one order, rejected in another", "key": key, "msg": key})
            continue
        if "rejected" in base:
            continue
        for lvl in ("ir", "code"):
            if lvl in base and base[lvl] != other.get(lvl):
                d = first_diff(base[lvl], other.get(lvl) or {})
                found.append({"sig": f"C19|{what}|{lvl} manifest differs between orders", "key": key,
                              "msg": f"{key}: schema {d[0]}: {json.dumps(d[1])[:300]} vs {json.dumps(d[2])[:300]}"})
    return {"findings": found, "evals": len(variants) + 1, "nontrivial": nontriv, "nontrivial_multi": True,
            "outcome": "orders:" + ("differs" if found else "same"),
            "sample": {"graph": graphs.describe(base_case), "menu": case["menu"], "orders": len(perms)}}


def run_fieldorder(case):
    from ..space import fields

    import itertools as _it

    kinds = case["kinds"]
    names = ["alpha", "beta", "gamma"][: len(kinds)]
    found = []
    base = None
    n = 0
    nontriv = []
    for perm in _it.permutations(range(len(kinds))):
        fcase = {"fields": [{"name": names[i], "kind": kinds[i], "required": case["required"], "default": False} for i in perm]}
        doc = fields.pack_doc([fcase])
        with sandbox.scratch() as d:
            root = os.path.join(d, "proj")
            files, err = sandbox.generate(doc, root)
            n += 1
            m = {"rejected": type(err).__name__} if err is not None else observe.code_field_annotations(os.path.join(root, "cli"), "M0")
        label = f"fields {dict(zip(names, kinds))} required={case['required']}|order={[names[i] for i in perm]}"
        if base is None:
            base = (label, m)
            continue
        nontriv.append(label)
        if m != base[1]:
            diff = first_diff(base[1] or {}, m or {})
            found.append({"sig": "C19|property-order|emitted field annotations differ between property orders", "key": label,
                          "msg": f"{label}: {diff} (base {base[0]})"})
    return {"findings": found[:1] + found[1:], "evals": n, "nontrivial": nontriv, "nontrivial_multi": True,
            "outcome": "fieldorder:" + ("differs" if found else "same"), "sample": {"fields": kinds, "required": case["required"], "orders": n}}


def run_case(case):
    if case["kind"] == "fieldorder":
        return run_fieldorder(case)
    if case["kind"] == "render":
        return run_render(case)
    if case["kind"] == "paths":
        return run_paths(case)
    if case["kind"] == "orders":
        return run_orders(case)
    raise HarnessError("unknown kind")
