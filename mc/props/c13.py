"""C13 - endpoint clients, their Protocols and their mocks have identical surfaces."""
from __future__ import annotations

import os

from .. import sandbox
from ..kernel import HarnessError
from ..space import ops

PID = "C13"
LEVEL = "exploration"
RULE = ("documents of two operations: every ordered pair of operation shapes {plain, 3 optional params, multi-content (overloads), streaming bytes, SSE, "
        "long wrapped signature, body+params, json primary + streaming secondary status, streaming primary + json secondary} x every tag pattern {none, same tag, different tags, multi-tag, case variants, punctuation variants, PascalCase / camelCase / reserved-word / letter+digit / spaced spellings}; "
        "the generated package is imported in the runtime-only interpreter and client class / Protocol / mock are compared by introspection "
        "(inspect.signature, coroutine vs async-iterator nature, isinstance against the runtime_checkable Protocol, NotImplementedError from mocks, "
        "MockAPIClient vs APIClient tag properties). non-trivial = distinct (shape pair, tag pattern) documents")
ASSUMPTIONS = [
    "a Protocol member written as a plain `def` annotated AsyncIterator[...] counts as async-iterator nature (the correct typing spelling)",
    "annotations are compared as the strings found in __annotations__ (the three artefacts are rendered from the same text)",
]
BOUND = {"quick": "15x15 shape pairs x 19 tag patterns + 51 in-process histories", "thorough": "same + 3-operation documents over the 4 overload/stream shapes (576 more)"}
CHUNK = 4

P = ops.param
SHAPES = {
    "plain": ops.op("get", "/p", [], None, {"200": "json-model"}),
    "opt3": ops.op("get", "/q", [P("q", "query", False, "string"), P("X-Trace", "header", False, "string"), P("limit", "query", False, "integer"), P("since", "query", False, "date")],
                   None, {"200": "json-array-model"}),
    "multi": ops.op("post", "/m", [], {"kind": "json+multipart", "required": True}, {"200": "json-model"}),
    "bytes": ops.op("get", "/d", [], None, {"200": "octet"}),
    "sse": ops.op("get", "/e", [], None, {"200": "event-stream"}),
    "long": ops.op("put", "/l/{aVeryLongPathParameterName}", [
        P("aVeryLongPathParameterName", "path", True, "integer"), P("anotherQuiteLongQueryParameter", "query", True, "string"),
        P("optionalQueryParameterNumberOne", "query", False, "arr-string"), P("X-Optional-Header-Parameter", "header", False, "string"),
        P("sortOrder", "query", False, "str-enum")], {"kind": "json-ref", "required": True}, {"200": "json-model", "404": "none"}),
    "json+stream206": ops.op("get", "/js", [], None, {"200": "json-model", "206": "octet"}),
    "sse+json201": ops.op("get", "/sj", [], None, {"200": "event-stream", "201": "json-model"}),
    "stream-default": ops.op("get", "/sd", [], None, {"default": "event-stream"}),   # no explicit 2xx: the streamed payload sits under `default`
    # an operation whose NAME is a type name the generated code uses in annotations (date), next to operations with date parameters
    "named-date": dict(ops.op("get", "/dt", [P("on", "query", False, "date")], None, {"200": "json-model"}), op_id_fixed="date"),
    # JSON answer declared without a schema, on a path whose last resource is named like a component schema (Item)
    "schemaless-item": ops.op("get", "/items/{itemId}", [P("itemId", "path", True, "integer")], None, {"200": "json-no-schema"}),
    "options": ops.op("options", "/p", [], None, {"204": "none"}),   # CORS-preflight style operation exported by gateways
    "head+trace": ops.op("head", "/ht/{id}", [P("id", "path", True, "integer")], None, {"200": "none"}),
    "bulk": ops.op("post", "/bulk", [], {"kind": "json-array-inline", "required": True}, {"204": "none"}),
    "bodyparams": ops.op("post", "/bp/{id}", [P("id", "path", True, "string"), P("q", "query", False, "date")],
                         {"kind": "json-inline", "required": False}, {"201": "json-model", "204": "none"}),
}
TAG_PATTERNS = {
    "none": (None, None), "same": (["x"], ["x"]), "different": (["x"], ["y"]), "multi-first": (["x", "y"], ["x"]), "multi-second": (["x", "y"], ["y"]),
    "case": (["x"], ["X"]), "punct": (["x-y"], ["x_y"]), "space": (["x y"], ["x-y"]), "multi-both": (["x", "y"], ["y", "x"]),
    # one consistent spelling per tag, in the styles real documents use (PascalCase, camelCase, reserved word, letter+digit, spaced)
    "pascal": (["DataSources"], ["DataSources"]), "camel": (["apiKeys"], ["apiKeys"]), "reserved": (["models"], ["models"]),
    "letter-digit": (["v1"], ["v1"]), "dot": (["x.y"], ["x-y"]), "slash": (["x/y"], ["x_y"]), "spaced-title": (["User Admin"], ["User Admin"]), "pascal+camel": (["DataSources"], ["apiKeys"]),
    # untagged operations next to operations tagged with a spelling of the name used for untagged ones
    "default-mix": (None, ["default"]), "default-mix-cap": (["Default"], None),
}


def cases(tier, seed):
    out = []
    for a in SHAPES:
        for b in SHAPES:
            for tp in TAG_PATTERNS:
                out.append({"shapes": [a, b], "tags": tp})
    # histories: ANOTHER client (other tags, other package) was generated earlier in the same process; the package generated now must
    # still have its three faces in parity
    for a, b in (("plain", "opt3"), ("sse", "bulk"), ("multi", "long")):
        for tp in TAG_PATTERNS:
            out.append({"shapes": [a, b], "tags": tp, "after": "other-client"})
    if tier != "quick":
        hard = ["multi", "bytes", "sse", "long"]
        for a in hard:
            for b in hard:
                for c in hard:
                    for tp in TAG_PATTERNS:
                        out.append({"shapes": [a, b, c], "tags": tp})
    return out


def build(case):
    t = TAG_PATTERNS[case["tags"]]
    cs = []
    for i, s in enumerate(case["shapes"]):
        c = dict(SHAPES[s])
        c["tags"] = t[i % 2]
        c["op_id"] = c.pop("op_id_fixed", None) or f"{s}Op{i}"
        cs.append(c)
    doc, meta = ops.build_doc(cs, auto_tag=False, auto_id=False)
    return doc


def compare_tag(tag, t, add):
    cm, pm, mm = t.get("client", {}), t.get("protocol"), t.get("mock")
    if not t.get("has_protocol"):
        add("protocol-missing", "no <Client>Protocol class next to the client", tag)
        pm = None
    for label, other in (("protocol", pm), ("mock", mm)):
        if other is None:
            if label == "mock":
                add("mock-missing", "no mock for a tag client", tag)
            continue
        for n in cm:
            if n not in other:
                add(f"{label}-method-missing", "operation method of the client absent", f"{tag}.{n}")
        for n in other:
            if n not in cm:
                add(f"{label}-method-extra", "method without counterpart on the client", f"{tag}.{n}")
        for n in cm:
            if n not in other:
                continue
            a, b = cm[n], other[n]
            if a["sig"] != b["sig"]:
                pa, pb = a["sig"].get("params"), b["sig"].get("params")
                if pa is None or pb is None:
                    what = "signature not inspectable"
                elif [p[0] for p in pa] != [p[0] for p in pb]:
                    what = "parameter names/order differ"
                elif [p[1] for p in pa] != [p[1] for p in pb]:
                    what = "parameter kinds differ"
                elif [p[2] for p in pa] != [p[2] for p in pb]:
                    what = "defaults differ"
                elif [p[3] for p in pa] != [p[3] for p in pb]:
                    what = "parameter annotations differ"
                else:
                    what = "return annotation differs"
                add(f"{label}-signature", what, f"{tag}.{n}: client {a['sig']} vs {label} {b['sig']}")
            if a["nature"] != b["nature"]:
                add(f"{label}-nature", f"client {a['nature']} vs {label} {b['nature']}", f"{tag}.{n}")
    if pm is not None and t.get("client_isinstance_protocol") is not True:
        add("isinstance", "client instance does not satisfy its Protocol", f"{tag}: {t.get('client_isinstance_protocol')}")
    if pm is not None and mm is not None and t.get("mock_isinstance_protocol") is not True:
        add("isinstance", "mock instance does not satisfy the Protocol", f"{tag}: {t.get('mock_isinstance_protocol')}")
    for n, d in (mm or {}).items():
        if d.get("raises") != "NotImplementedError":
            add("mock-behaviour", f"mock method does not raise NotImplementedError (raises {d.get('raises')})", f"{tag}.{n}")


def run_case(case):
    doc = build(case)
    label = "+".join(case["shapes"]) + "|tags=" + case["tags"] + ("|after=" + case["after"] if case.get("after") else "")
    found = []
    seen = set()

    def add(clause, disc, detail):
        sig = f"C13|{clause}|{disc}"
        if sig not in seen:
            seen.add(sig)
            found.append({"sig": sig, "key": label, "msg": f"{detail} in {label}"})

    with sandbox.scratch() as d:
        root = os.path.join(d, "proj")
        if case.get("after"):
            first = build({"shapes": ["bodyparams", "bytes"], "tags": "pascal+camel"})
            sandbox.generate(first, os.path.join(d, "earlier"), output_package="earlier_client")
        files, err = sandbox.generate(doc, root, reset=not case.get("after"))
        if err is not None:
            return {"findings": [], "outcome": "rejected:" + type(err).__name__, "nontrivial": label}
        res = sandbox.zygote_job({"roots": [root], "allow": ["cli"], "driver": "parity", "args": {"package": "cli", "core": "cli.core"}})
    if "_crash" in res:
        raise HarnessError("parity driver crashed: " + res["_crash"] + res.get("_tb", ""))
    for e in res["errors"]:
        if e["stage"] == "client":
            # client side not importable: C01's subject; parity cannot be examined
            return {"findings": [], "outcome": "client-import-failed", "nontrivial": label}
        if e["stage"] == "mocks":
            add("mocks-unusable", e["error"], e["raw"])
        else:
            add("property-error", e["error"], e["raw"])
    if "mock_api_props" in res and res["mock_api_props"] != res.get("api_props"):
        add("api-props", "MockAPIClient tag properties differ from APIClient's", f"{res.get('api_props')} vs {res['mock_api_props']}")
    nm = 0
    for tag, t in res["tags"].items():
        nm += len(t.get("client", {}))
        if "mock" not in t and not any(e["stage"] == "mocks" for e in res["errors"]):
            if t.get("mock_error"):
                add("mock-missing", "MockAPIClient has no such tag property", f"{tag}: {t['mock_error']}")
        compare_tag(tag, t, add)
    return {"findings": found, "nontrivial": label, "outcome": "parity:" + ("finding" if found else "ok"),
            "sample": {"case": label, "tags": sorted(res["tags"]), "client_methods_compared": nm}}
