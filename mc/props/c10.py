"""C10 - without force, existing output is never touched; writes stay contained (fault enumeration)."""
from __future__ import annotations

import os
import re
import shutil
import sys

from .. import pkgcheck, sandbox
from ..kernel import HarnessError
from ..space import docs

PID = "C10"
LEVEL = "fault_enumeration"
RULE = ("configurations: force {on, off} x existing tree {absent, equal, different, partially present, client present but core directory missing} x core layout {embedded, sibling core, nested pk.core} x document(s); "
        "for each configuration the fault-free run numbers the W filesystem-mutating events of the generator (observed through a sys.addaudithook: open for "
        "writing, mkdir, rename, remove, rmdir, rmtree, truncate, utime, chmod, copyfile ...) and then EVERY k in 1..W is run with an OSError injected at the k-th "
        "event (1 deviation), plus stage-level faults before/after fetch, load and each of the 6 emitters. Oracle: recursive (type,size,sha256,mtime) snapshot of a "
        "project root with sentinel files next to, above and inside sibling packages, before vs after. non-trivial = distinct (configuration, crash point) runs with a fault")
ASSUMPTIONS = [
    "mutating events are observed through CPython audit events raised by this interpreter; writes by child processes do not occur with no_postprocess=True",
    "allowed write set in every mode: <out_dir>/**, <core_dir>/**, __init__.py of their ancestor packages; paths outside the project root (temp dirs) are not restricted",
    "a fault is an OSError(ENOSPC) raised before the operation happens (whole-operation granularity, no torn writes)",
]
BOUND = {"quick": "51 configurations (6 layouts x 11 tree kinds x force, reduced) with every single crash point (W~60-250 each) + 16 stage faults, + 16 configurations with post-processing on (fault-free + stage faults)", "thorough": "48 configurations x 2 documents + two-run histories (forced run crashed at k, then a fault-free non-force run)"}
CHUNK = 1
CASE_TIMEOUT_S = 900

LAYOUTS = {"embedded": ("cli", None), "sibling": ("cli", "core"), "nested": ("pk.cli", "pk.core"), "deep": ("acme.clients.petstore", None),
           # <root>/pkgs is a symlink to <root>/vendor/pkgs (a directory INSIDE the project): writes may go through it, not next to its target
           "symlinked": ("pkgs.petstore", None),
           # a sibling core whose directory name starts with the client's directory name
           "sibling-prefix": ("petstore", "petstore_core")}
TREES = ["absent", "equal", "different", "partial", "nocore", "namespace", "dot-only", "sib-equal", "sib-core-edited", "indent-only", "nonpy-missing"]

# ----------------------------------------------------------------------------------------------
# audit-hook fault injector (installed once per worker process; inert unless armed)
# ----------------------------------------------------------------------------------------------
_ST = {"installed": False, "armed": False, "count": 0, "fail_at": None, "log": [], "base": ""}
_WRITE_FLAGS = os.O_WRONLY | os.O_RDWR | os.O_CREAT | os.O_TRUNC | os.O_APPEND
_PATH_EVENTS = {"os.mkdir": 0, "os.rmdir": 0, "os.remove": 0, "os.rename": 0, "os.truncate": 0, "os.chmod": 0, "os.chown": 0, "os.utime": 0,
                "os.link": 0, "os.symlink": 1, "shutil.rmtree": 0, "shutil.copyfile": 1, "shutil.move": 1, "shutil.copytree": 1, "shutil.copymode": 1,
                "shutil.copystat": 1, "os.chflags": 0, "os.mkfifo": 0}


def _hook(event, args):
    st = _ST
    if not st["armed"]:
        return
    path = None
    if event == "open":
        p, mode, flags = args[0], args[1], args[2]
        writing = False
        if isinstance(mode, str):
            writing = any(c in mode for c in "wax+")
        if not writing and isinstance(flags, int):
            writing = bool(flags & _WRITE_FLAGS)
        if not writing:
            return
        path = p
    elif event in _PATH_EVENTS:
        path = args[_PATH_EVENTS[event]] if len(args) > _PATH_EVENTS[event] else args[0]
        if event == "os.rename":
            path = args[0]
    else:
        return
    try:
        if event == "os.mkdir" and os.path.isdir(path):
            return  # mkdir of an existing directory (exist_ok idiom) cannot fail with ENOSPC: not a crash point
    except Exception:
        pass
    try:
        sp = os.fsdecode(path) if not isinstance(path, int) else None
    except Exception:
        sp = None
    if sp is None:
        return
    sp = os.path.abspath(sp)
    if not sp.startswith(st["base"]):
        return
    st["count"] += 1
    st["log"].append((event, os.path.relpath(sp, st["base"])))
    if st["fail_at"] is not None and st["count"] == st["fail_at"]:
        st["armed"] = False  # one deviation only (cleanup code of the generator must be able to run)
        st["rearm_dead"] = True
        raise OSError(28, "injected fault: no space left on device", sp)


def install_hook():
    if not _ST["installed"]:
        sys.addaudithook(_hook)
        _ST["installed"] = True


_HB = [""]


class Armed:
    def __init__(self, base, fail_at):
        self.base, self.fail_at = base, fail_at

    def __enter__(self):
        _ST.update({"armed": True, "count": 0, "fail_at": self.fail_at, "log": [], "base": self.base})
        return _ST

    def __exit__(self, *a):
        _ST["armed"] = False
        return False


# ----------------------------------------------------------------------------------------------
def cases(tier, seed):
    out = []
    dnames = ["petstore"] if tier == "quick" else ["petstore", "unions"]
    for dn in dnames:
        for lay in LAYOUTS:
            for tree in TREES:
                for force in (False, True):
                    if tier == "quick" and ((force and tree in ("different", "partial")) or (not force and tree == "absent")):
                        continue  # quick: forced runs over absent/equal/nocore trees, non-forced runs over every existing tree
                    if tree == "namespace" and (force or "." not in LAYOUTS[lay][0]):
                        continue
                    if tree in ("indent-only", "nonpy-missing") and (force or lay not in ("embedded", "deep")):
                        continue  # an up-to-date tree with ONE file re-indented / with only the generated non-Python files (py.typed, README.md) removed
                    if tree == "dot-only" and (force or lay not in ("embedded", "nested")):
                        continue  # the package directory exists but holds only hidden entries (.gitkeep): a non-force run must leave it alone
                    if tree in ("sib-equal", "sib-core-edited") and (force or LAYOUTS[lay][1] is None):
                        continue  # external-core layouts with the client __init__ brought in line with what the comparison generates
                    if lay == "sibling-prefix" and tree not in ("sib-equal", "sib-core-edited", "absent", "equal"):
                        continue  # ancestors without __init__.py exist only for dotted packages; the interesting run is the non-force one
                    if lay in ("deep", "symlinked") and tier == "quick" and tree not in ("equal", "namespace", "absent"):
                        continue
                    out.append({"doc": dn, "layout": lay, "tree": tree, "force": force, "history": False})
    # post-processing switched on (the default of the CLI): the formatter runs in a subprocess, so its writes are judged by the tree
    # snapshot (fault-free run and stage faults), not by the audit hook
    for lay in LAYOUTS:
        for tree, force in (("absent", True), ("equal", True), ("equal", False), ("different", False)):
            out.append({"doc": "petstore", "layout": lay, "tree": tree, "force": force, "history": False, "postprocess": True})
    if tier != "quick":
        for lay in LAYOUTS:
            out.append({"doc": "petstore", "layout": lay, "tree": "absent", "force": True, "history": True})
    return out


def plant_sentinels(root, out_pkg, core_pkg):
    files = {
        "README.txt": "project readme",
        "setup.cfg": "[x]",
        "otherpkg/__init__.py": "",
        "otherpkg/keep.py": "import os, sys\nX = {'a':1}\n",        # hand-written code a formatter / import fixer would rewrite
        "cli_backup/keep.py": "Y = 2\n",
        "cli2/__init__.py": "# sibling with a similar name\n",
        "core_old/keep.py": "Z = 3\n",
    }
    if "." in out_pkg:
        top = out_pkg.split(".")[0]
        files[f"{top}/keep_in_ancestor.py"] = "import json, re\nA = {'k':[1,2]}\n"
        files[f"{top}/sibling/__init__.py"] = ""
        files[f"{top}/sibling/invoice.py"] = "from typing import List, Dict\ndef total(xs) :\n  return sum(xs)\n"
        files[f"{top}/sibling/data.json"] = "{}"
    for rel, content in files.items():
        p = os.path.join(root, rel)
        os.makedirs(os.path.dirname(p), exist_ok=True)
        if not os.path.exists(p):
            with open(p, "w") as f:
                f.write(content)


def prepare(base, case):
    """build the initial project tree; returns root"""
    out_pkg, core_pkg = LAYOUTS[case["layout"]]
    root = os.path.join(base, "proj")
    os.makedirs(root)
    if case["layout"] == "symlinked":
        os.makedirs(os.path.join(root, "vendor", "pkgs"))
        os.symlink(os.path.join("vendor", "pkgs"), os.path.join(root, "pkgs"))
        with open(os.path.join(root, "vendor", "handwritten.py"), "w") as f:
            f.write("V = 1\n")
    doc = docs.get(case["doc"])
    other = docs.get("unions" if case["doc"] != "unions" else "petstore")
    npp = not case.get("postprocess")
    if case["tree"] == "dot-only":
        od = pkgcheck.pkg_dir(root, out_pkg)
        os.makedirs(od)
        for n in (".gitkeep", ".gitattributes"):
            with open(os.path.join(od, n), "w") as f:
                f.write("* text=auto\n")
    if case["tree"] in ("equal", "partial", "nocore", "namespace", "sib-equal", "sib-core-edited", "indent-only", "nonpy-missing"):
        files, err = sandbox.generate(doc, root, output_package=out_pkg, core_package=core_pkg, force=True, no_postprocess=npp)
        if err is not None:
            raise HarnessError(f"could not prepare tree: {err}")
    elif case["tree"] == "different":
        files, err = sandbox.generate(other, root, output_package=out_pkg, core_package=core_pkg, force=True, no_postprocess=npp)
        if err is not None:
            raise HarnessError(f"could not prepare tree: {err}")
    if case["tree"] == "partial":
        od = pkgcheck.pkg_dir(root, out_pkg)
        victims = sorted(n for n in os.listdir(os.path.join(od, "models")) if n.endswith(".py") and n != "__init__.py")
        os.unlink(os.path.join(od, "models", "pet.py" if "pet.py" in victims else victims[0]))
        shutil.rmtree(os.path.join(od, "mocks"))
        cd = pkgcheck.pkg_dir(root, core_pkg or out_pkg + ".core")
        os.unlink(os.path.join(cd, "utils.py"))
    if case["tree"] == "indent-only":
        from . import c09

        c09.apply_drift("indent-only", os.path.join(pkgcheck.pkg_dir(root, out_pkg), "client.py"))
    if case["tree"] == "nonpy-missing":
        for dp, dn, fn in os.walk(pkgcheck.pkg_dir(root, out_pkg)):
            for n in fn:
                if not n.endswith(".py"):
                    os.unlink(os.path.join(dp, n))
    if case["tree"] in ("sib-equal", "sib-core-edited"):
        # the direct path writes a client __init__.py that the comparison path does not produce (known finding); with that file emptied the
        # tree is what the comparison generates, so the outcome of the non-force run is decided by the core package alone
        open(os.path.join(pkgcheck.pkg_dir(root, out_pkg), "__init__.py"), "w").close()
        if case["tree"] == "sib-core-edited":
            with open(os.path.join(pkgcheck.pkg_dir(root, core_pkg), "http_transport.py"), "a") as f:
                f.write("\n# local patch\n")
    if case["tree"] == "namespace":
        # an up-to-date package whose ancestor directories are namespace packages (their __init__.py removed)
        parts = out_pkg.split(".")
        for i in range(1, len(parts)):
            p = os.path.join(root, *parts[:i], "__init__.py")
            if os.path.exists(p):
                os.unlink(p)
    if case["tree"] == "nocore":
        # client package present, core directory gone entirely
        shutil.rmtree(pkgcheck.pkg_dir(root, core_pkg or out_pkg + ".core"))
    if case["tree"] not in ("absent", "dot-only"):
        # a user file inside the package: may only disappear in force mode
        with open(os.path.join(pkgcheck.pkg_dir(root, out_pkg), "user_notes.txt"), "w") as f:
            f.write("mine")
    plant_sentinels(root, out_pkg, core_pkg)
    return root


_ROOT = [None]


def _real(root, d):
    """project-relative path of directory d after resolving symlinks (d itself when nothing is linked)"""
    if not root:
        return d
    try:
        return os.path.relpath(os.path.realpath(os.path.join(root, d)), os.path.realpath(root)).replace(os.sep, "/")
    except Exception:
        return d


def allowed(rel, out_pkg, core_pkg):
    rel = rel.rstrip("/").replace(os.sep, "/")
    o = out_pkg.replace(".", "/")
    c = (core_pkg or out_pkg + ".core").replace(".", "/")
    root = _ROOT[0]
    for d0 in (o, c):
        for d in {d0, _real(root, d0)}:
            if rel == d or rel.startswith(d + "/"):
                return True
    anc = set()
    for d in (o, c):
        parts = d.split("/")
        for i in range(1, len(parts)):
            anc.add("/".join(parts[:i]))
            anc.add(_real(root, "/".join(parts[:i])))
    if rel in anc:
        return True  # the ancestor package directory itself may be created
    if rel.endswith("/__init__.py") and rel[: -len("/__init__.py")] in anc:
        return True
    return False


def diff_snap(a, b):
    created = sorted(k for k in b if k not in a)
    removed = sorted(k for k in a if k not in b)
    modified = sorted(k for k in a if k in b and a[k][:3] != b[k][:3])
    touched = sorted(k for k in a if k in b and a[k][:3] == b[k][:3] and a[k][3] != b[k][3])
    return created, removed, modified, touched


def stage_faults():
    """(label, patcher) : patcher(cg) returns an undo function"""
    out = []

    def patch_func(name, when):
        def patcher(cg):
            real = getattr(cg, name)

            def wrapped(*a, **kw):
                if when == "before":
                    raise RuntimeError(f"injected fault before {name}")
                r = real(*a, **kw)
                raise RuntimeError(f"injected fault after {name}")

            setattr(cg, name, wrapped)
            return lambda: setattr(cg, name, real)

        return patcher

    def patch_emitter(cls_name, when):
        def patcher(cg):
            real = getattr(cg, cls_name)

            class Faulty(real):  # type: ignore
                def emit(self, *a, **kw):
                    if when == "before":
                        raise RuntimeError(f"injected fault before {cls_name}.emit")
                    r = super().emit(*a, **kw)
                    raise RuntimeError(f"injected fault after {cls_name}.emit")

            setattr(cg, cls_name, Faulty)
            return lambda: setattr(cg, cls_name, real)

        return patcher

    for name in ("fetch_spec", "load_ir_from_spec"):
        for when in ("before", "after"):
            out.append((f"stage:{when}:{name}", patch_func(name, when)))
    for cls_name in ("ExceptionsEmitter", "CoreEmitter", "ModelsEmitter", "EndpointsEmitter", "ClientEmitter", "MocksEmitter"):
        for when in ("before", "after"):
            out.append((f"stage:{when}:{cls_name}", patch_emitter(cls_name, when)))
    return out


def run_once(base, case, fault, prepared_copy):
    """one execution: restore the prepared tree, run the generator with the given fault, return observations"""
    import pyopenapi_gen.generator.client_generator as cg

    out_pkg, core_pkg = LAYOUTS[case["layout"]]
    work = os.path.join(base, "run")
    shutil.rmtree(work, ignore_errors=True)
    shutil.copytree(prepared_copy, work, symlinks=True)
    # copytree does not preserve directory mtimes reliably across copies; snapshot is taken on the copy
    root = os.path.join(work, "proj")
    _ROOT[0] = root
    before = sandbox.snapshot(root)
    doc = docs.get(case["doc"])
    undo = None
    fail_at = None
    if fault is not None and fault[0] == "op":
        fail_at = fault[1]
    elif fault is not None:
        undo = fault[2](cg)
    try:
        files, err = sandbox.generate(doc, root, output_package=out_pkg, core_package=core_pkg, force=case["force"], reset=True,
                                      around=lambda: Armed(_HB[0], fail_at), no_postprocess=not case.get("postprocess"))
        count, log = _ST["count"], list(_ST["log"])
    finally:
        if undo:
            undo()
    after = sandbox.snapshot(root)
    return before, after, err, count, log


def check_log(case, fault_label, log, add):
    """the audit log sees every mutating event, also those whose effect is gone again when the run ends"""
    out_pkg, core_pkg = LAYOUTS[case["layout"]]
    mode = "force" if case["force"] else "noforce"
    for ev, rp in log:
        rp = rp.replace(os.sep, "/")
        if "/run/proj/" not in rp and not rp.endswith("/run/proj"):
            continue
        rel = rp.split("/run/proj/", 1)[1] if "/run/proj/" in rp else ""
        if not rel:
            continue
        if not case["force"] and case["tree"] != "absent":
            add(f"untouched|{case['tree']}|{case['layout']}", "non-force run over an existing package performs a filesystem-mutating operation under the project root "
                "(even if undone before it returns)", f"{ev} {rel.split('/')[0]}/... ({fault_label})")
            return
        if not allowed(rel, out_pkg, core_pkg):
            add(f"containment|{mode}|{case['layout']}", "filesystem-mutating operation on a path outside the package/core/ancestor-__init__ set (transient)",
                f"{ev} {rel} ({fault_label})")
            return


def check_run(case, label, fault_label, before, after, err, add):
    out_pkg, core_pkg = LAYOUTS[case["layout"]]
    created, removed, modified, touched = diff_snap(before, after)
    mode = "force" if case["force"] else "noforce"
    existing = case["tree"] != "absent"
    faulted = fault_label != "none"
    # containment: every mode
    for kind, paths in (("created", created), ("removed", removed), ("modified", modified)):
        for p in paths:
            if not allowed(p, out_pkg, core_pkg):
                add(f"containment|{mode}|{case['layout']}", f"path outside the package/core/ancestor-__init__ set {kind}", f"{p} ({fault_label})")
    if not case["force"] and existing:
        changed = [("created", created), ("removed", removed), ("modified", modified), ("rewritten (mtime)", touched)]
        for kind, paths in changed:
            if paths:
                add(f"untouched|{case['tree']}|{case['layout']}", f"non-force run over an existing package {kind} files" + (" after a fault" if faulted else ""),
                    f"{paths[:4]} ({fault_label})")
        if faulted and err is None:
            add(f"outcome|{case['tree']}|{case['layout']}", "non-force run reports success although a step failed part-way", fault_label)
        if not faulted:
            if case["tree"] in ("equal", "namespace", "sib-equal") and err is not None:
                add(f"outcome|equal|{case['layout']}", "non-force run over an up-to-date tree does not succeed", f"{type(err).__name__}: {str(err)[:120]}")
            if case["tree"] in ("different", "partial", "nocore", "sib-core-edited", "dot-only", "indent-only") and err is None:
                add(f"outcome|{case['tree']}|{case['layout']}", "non-force run over a tree that differs from what would be generated reports success", "")


def run_case(case):
    install_hook()
    label = (f"{case['doc']}|{case['layout']}|tree={case['tree']}|{'force' if case['force'] else 'noforce'}" + ("|history" if case.get("history") else "")
             + ("|postprocess" if case.get("postprocess") else ""))
    found = []
    seen = set()
    nontriv = []
    n = 0

    def add(clause, disc, detail):
        sig = f"C10|{clause}|{disc}"
        # the witness key names the configuration AND the crash point (event kind + path, temp-directory names and event numbers normalised),
        # so that a known finding at one crash point does not cover a new one in the same configuration
        m = re.search(r"fault at event \d+/\d+: (\S+) ([^)|]+)", detail)
        if m:
            point = m.group(1) + " " + re.sub(r"tmp/tmp[^/]+", "tmp/<T>", m.group(2).strip())
        else:
            m = re.search(r"(stage:[a-z]+:\w+|after a forced run crashed at event \d+)", detail)
            point = m.group(1) if m else ""
        key = f"{label}|{point}"
        if (sig, key) not in seen:
            seen.add((sig, key))
            found.append({"sig": sig, "key": key, "msg": f"{detail} | {label}"})

    from ..kernel import worker_scratch

    _HB[0] = hook_base = worker_scratch()  # covers the project tree AND the generator's temp directory (TMPDIR lives inside)
    with sandbox.scratch("c10-") as base:
        prep = os.path.join(base, "prepared")
        os.makedirs(prep)
        prepare(prep, case)
        # fault-free run numbers the mutating events
        before, after, err, W, log = run_once(base, case, None, prep)
        n += 1
        check_run(case, label, "none", before, after, err, add)
        check_log(case, "none", log, add)
        if W == 0 and (case["force"] or case["tree"] == "absent"):
            raise HarnessError("the audit hook saw no mutating event during a generating run: fault injector blind")
        for k in range(1, (W if not case.get("postprocess") else 0) + 1):
            b, a, e, cnt, lg = run_once(base, case, ("op", k), prep)
            n += 1
            ev = log[k - 1] if k - 1 < len(log) else ("?", "?")
            fl = f"fault at event {k}/{W}: {ev[0]} {ev[1]}"
            nontriv.append(f"{label}|k={k}")
            check_run(case, label, fl, b, a, e, add)
            check_log(case, fl, lg, add)
            if case["force"] is False and case["tree"] == "absent" and e is None:
                pass
        import pyopenapi_gen.generator.client_generator as _cg

        for sl, patcher in stage_faults():
            if not hasattr(_cg, sl.split(":")[-1]):
                continue  # the stage seam was renamed: operation-level crash points still cover it
            b, a, e, cnt, lg = run_once(base, case, ("stage", sl, patcher), prep)
            n += 1
            nontriv.append(f"{label}|{sl}")
            check_run(case, label, sl, b, a, e, add)
        if case.get("history"):
            # two-run histories: forced run crashed at k, then a fault-free non-force run over whatever is left
            out_pkg, core_pkg = LAYOUTS[case["layout"]]
            for k in range(1, W + 1, 1):
                work = os.path.join(base, "run")
                shutil.rmtree(work, ignore_errors=True)
                shutil.copytree(prep, work, symlinks=True)
                root = os.path.join(work, "proj")
                sandbox.generate(docs.get(case["doc"]), root, output_package=out_pkg, core_package=core_pkg, force=True,
                                 around=lambda: Armed(_HB[0], k))
                if not os.path.isdir(pkgcheck.pkg_dir(root, out_pkg)):
                    continue
                b = sandbox.snapshot(root)
                files, e = sandbox.generate(docs.get(case["doc"]), root, output_package=out_pkg, core_package=core_pkg, force=False)
                a = sandbox.snapshot(root)
                n += 1
                c2 = dict(case, force=False, tree="partial")
                check_run(c2, label, f"after a forced run crashed at event {k}", b, a, None if e is None else e, add)
    return {"findings": found, "evals": n, "nontrivial": nontriv, "nontrivial_multi": True,
            "outcome": f"{'force' if case['force'] else 'noforce'}:{case['tree']}:" + ("finding" if found else "ok"),
            "sample": {"configuration": label, "mutating_events_W": W, "first_events": [list(x) for x in log[:6]], "crash_points": W + len(stage_faults())}}
