"""C01 - every accepted spec yields a package that compiles and imports."""
from __future__ import annotations

import itertools
import os

from .. import pkgcheck, sandbox
from ..kernel import HarnessError
from ..space import docs, fields, graphs, ops

PID = "C01"
LEVEL = "exploration"
RULE = ("(a) schema graphs G(N,d); (b) every field shape single + reduced pairs (packed, bisected on failure so each case gets its own verdict); "
        "(c) operation slices: every single parameter shape, every body kind x {0,1 query}x{0,1 header}, every response set of size<=2, all methods, "
        "path-item/operation overlap (packed+bisected); (d) output layouts (package depth 1..3 x 5 core placements x 3 naming strategies) x "
        "representative documents; each generated project is compiled file by file and every module of package and core imported in an "
        "interpreter that has only httpx+cattrs. non-trivial = distinct single cases (graph with a cycle / field / operation / layout)")
ASSUMPTIONS = [
    "the runtime-only interpreter is a fork of a process that imported only httpx and cattrs and blocks every other non-stdlib top-level module; "
    "setup self-tests that its verdict equals the one of a fresh `python -I` process",
    "generation that raises is outside the quantifier and only counted",
    "post-processing (ruff/black/mypy) is skipped: no_postprocess=True",
]
BOUND = {"quick": "G(2,1); ~340 field cases; ~440 operation cases inline and through component refs; 45 layouts x 3 naming strategies x 3 documents + 8 textually related layouts x 4 documents + all 17 documents; 152 tags; 80 discriminated unions; 6 colliding-enum documents",
         "thorough": "G(2,1), G(2,2|4 kinds), G(3,1|4 kinds); all field singles x names; full parameter product; response pairs x 6 contents; 45 layouts x 11 documents"}
CHUNK = 4
PACK = 8

LAYOUT_OUT = ["cli", "pk.cli", "pk.sub.cli"]
LAYOUT_CORE = [None, "core", "pk.core", "pk.shared.core", "pk.a.b.core"]
# package names that are textually related: the client's last component is a prefix of the core's name, the core's name is a prefix of the
# client's, a component is named like a standard-library module that generated code imports
LAYOUT_RELATED = [("acme.api", "api_core"), ("acme.api", "acme.api_core"), ("api", "api_core"), ("pk.core_client", "pk.core"), ("pk.cli", "pk.cli_core"),
                  ("acme.date", None), ("acme.json", "acme.json_core"), ("acme.typing", "typing_core")]
NAMING = ["operationId", "clean", "path"]
STATUS_MENU = ["200", "201", "202", "204", "206", "302", "400", "404", "418", "422", "499", "500", "503", "520", "599", "default"]
RESP6 = ["none", "json-model", "json-array-model", "json-string", "text-plain", "octet"]


def op_cases(tier):
    out = [c for g in ops.shared_item_groups() for c in g]   # first, so that each group stays inside one pack (one document)
    P = ops.param
    locs = ["path", "query", "header", "cookie"]
    if tier == "quick":
        for loc in locs:
            for req in (False, True):
                for k in ops.PARAM_KINDS:
                    out.append(ops.op("get", "/a/{p}" if loc == "path" else "/a", [P("p", loc, req, k)]))
            for n in ops.PARAM_NAMES:
                out.append(ops.op("get", "/a/{%s}" % n if loc == "path" else "/a", [P(n, loc, False, "string")]))
    else:
        for loc in locs:
            for req in (False, True):
                for k in ops.PARAM_KINDS:
                    for n in ops.PARAM_NAMES:
                        out.append(ops.op("get", "/a/{%s}" % n if loc == "path" else "/a", [P(n, loc, req, k)]))
    for loc in locs:
        for at in ("path", "both"):
            out.append(ops.op("get", "/a/{id}" if loc == "path" else "/a", [P("id", loc, loc == "path", "string", at)]))
    # path variables that no parameter declares (the loader only warns), alone and next to declared optional / required parameters
    for extra in ([], [P("expand", "query", False, "boolean")], [P("q", "query", True, "string")], [P("X-H", "header", False, "string"), P("q", "query", True, "string")]):
        out.append(ops.op("get", "/u/{bookId}", extra))
        out.append(ops.op("get", "/u/{bookId}/v/{page-no}", extra))
    for bk in ops.BODY_KINDS:
        for req in (False, True):
            for extra in ([], [P("q", "query", False, "string")], [P("X-H", "header", True, "string")],
                          [P("q", "query", False, "string"), P("X-H", "header", True, "string")]):
                out.append(ops.op("post", "/b", extra, {"kind": bk, "required": req}, {"200": "json-model"}))
    # operations carrying the annotations a document may put on them (deprecated)
    for body in (None, {"kind": "json-ref", "required": True}):
        out.append(dict(ops.op("post" if body else "get", "/old/{id}", [P("id", "path", True, "integer"), P("q", "query", False, "string")], body, {"200": "json-model"}), deprecated=True))
    for m in ("get", "put", "post", "delete", "patch", "head", "options", "trace"):
        out.append(ops.op(m, "/m/{id}", [P("id", "path", True, "integer"), P("q", "query", False, "string")],
                          {"kind": "json-ref", "required": True} if m in ("put", "post", "patch") else None, {"200": "json-model"}))
    for st in STATUS_MENU:
        for ck in RESP6:
            out.append(ops.op("get", "/r", [], None, {st: ck}))
    for k in ops.RESP_KINDS:
        out.append(ops.op("get", "/r", [], None, {"200": k}))
    for k in ops.STREAM_KINDS:
        out.append(ops.op("get", "/r", [], None, {"200": k}))
    pair_contents = [("json-model", "none"), ("none", "json-model")] if tier == "quick" else list(itertools.product(RESP6, RESP6))
    for a, b in itertools.combinations(STATUS_MENU, 2):
        for ca, cb in pair_contents:
            out.append(ops.op("get", "/r", [], None, {a: ca, b: cb}))
    seen = set()
    uniq = []
    for c in out:
        k = ops.describe(c)
        if k not in seen:
            seen.add(k)
            uniq.append(c)
    return uniq


def cases(tier, seed):
    out = []
    # (d) layouts first (slowest single cases)
    doc_names = docs.names()
    lay_docs = ["petstore", "streams", "codes", "unions"] if tier == "quick" else doc_names
    for o in LAYOUT_OUT:
        for c in LAYOUT_CORE:
            for ns in NAMING:
                for dn in lay_docs:
                    out.append({"kind": "layout", "doc": dn, "out": o, "core": c, "naming": ns})
    for o, c in LAYOUT_RELATED:
        for dn in (["petstore", "wrappers", "streams", "codes"] if tier == "quick" else doc_names):
            out.append({"kind": "layout", "doc": dn, "out": o, "core": c, "naming": "operationId"})
    for dn in doc_names:
        c = {"kind": "layout", "doc": dn, "out": "cli", "core": None, "naming": "operationId"}
        if c not in out:
            out.append(c)
    # (b) fields
    fs = fields.singles(tier) + fields.pairs(tier)
    for i in range(0, len(fs), PACK):
        out.append({"kind": "fieldpack", "cases": fs[i:i + PACK]})
    # (c) operations
    oc = op_cases(tier)
    for i in range(0, len(oc), PACK):
        out.append({"kind": "oppack", "cases": oc[i:i + PACK]})
    for i in range(0, len(oc), PACK):
        out.append({"kind": "oppack", "cases": oc[i:i + PACK], "refs": True})
    # (e) tags: every Python keyword, every name the generator itself reserves (read from the code under test, so the space follows it)
    # and the spellings real documents use; one document per tag with a plain and a model-returning operation
    for t in tag_menu():
        out.append({"kind": "tag", "tag": t})
    # (f) discriminated unions under every discriminator-property spelling and reserved union names
    from . import c14

    us = []
    for prop in c14.DISC_PROPS + ["kind"]:
        for uname in (None, "Filter", "Data", "Config"):
            for disc in ("mapping", "implicit"):
                us.append({"variants": ["VA", "VB"], "disc": disc, "nullable": False, "kw": "oneOf", "prop": prop, "uname": uname})
    for u in us:
        out.append({"kind": "union", "union": u})
    # (g) schema names that derive the same class / module name, every one of them really used (referenced, returned, self-referential)
    for names in COLLIDING_GROUPS:
        out.append({"kind": "colliding", "names": list(names)})
    # (a) graphs
    gs = graphs.graphs(2, 1, req_flags=(0,)) if tier == "quick" else graphs.graphs(2, 1)
    if tier != "quick":
        gs += graphs.graphs(2, 2, kinds=["ref", "arr", "oneof", "allof"], req_flags=(0,))
        gs += graphs.graphs(3, 1, kinds=["ref", "arr", "map", "allof"], req_flags=(0,))
    seen = set()
    for g in gs:
        k = repr((g["menu"], g["order"], g["nodes"]))
        if k in seen:
            continue
        seen.add(k)
        c = dict(g)
        c["kind"] = "graph"
        out.append(c)
    return out


COLLIDING_GROUPS = [("UserProfile", "User_Profile"), ("OrderItem", "Order_Item", "order-item"), ("Foo", "foo"), ("Category", "category", "CATEGORY", "Cate-gory"),
                    ("HTTPError", "HttpError"), ("A1", "A_1", "A-1", "a1")]


def colliding_doc(names):
    schemas = {}
    paths = {}
    for i, n in enumerate(names):
        schemas[n] = {"type": "object", "properties": {f"p{i}": {"type": "string"}}}
        if i % 2 == 1:
            schemas[n]["properties"]["next"] = {"$ref": "#/components/schemas/" + n}   # every second one refers to itself
        paths[f"/r{i}"] = {"get": {"operationId": f"getR{i}", "responses": {"200": {"description": "d", "content": {"application/json": {"schema": {"$ref": "#/components/schemas/" + n}}}}}},
                           "post": {"operationId": f"putR{i}", "requestBody": {"required": True, "content": {"application/json": {"schema": {"$ref": "#/components/schemas/" + n}}}},
                                    "responses": {"204": {"description": "d"}}}}
    schemas["ZzHolder"] = {"type": "object", "properties": {f"h{i}": {"$ref": "#/components/schemas/" + n} for i, n in enumerate(names)}}
    return sandbox.base_doc(schemas, paths)


TAG_SPELLINGS = ["Users", "users", "user-admin", "User Admin", "userAdmin", "DataSources", "apiKeys", "v1", "2fa", "x.y", "x/y", "a:b", "Pets & Owners",
                 "models", "client", "core", "endpoints", "default", "é", "_", "__init__"]


def tag_menu():
    import keyword

    try:
        from pyopenapi_gen.core.utils import NameSanitizer

        reserved = sorted(getattr(NameSanitizer, "RESERVED_NAMES", ()))
    except Exception:
        reserved = []
    seen = set()
    out = []
    for t in list(keyword.kwlist) + list(keyword.softkwlist) + reserved + TAG_SPELLINGS:
        if t not in seen:
            seen.add(t)
            out.append(t)
    return out


def tag_doc(tag):
    a = ops.op("get", "/things", [ops.param("limit", "query", False, "integer")], None, {"200": "json-model"})
    b = ops.op("delete", "/things/{id}", [ops.param("id", "path", True, "string")], None, {"204": "none"})
    for c in (a, b):
        c["tags"] = [tag]
    return ops.build_doc([a, b], auto_tag=False)[0]


# ----------------------------------------------------------------------------------------------
def project_verdict(doc, out_pkg="cli", core_pkg=None, naming="operationId"):
    """('rejected', exc) | ('ok', [(sig, msg)], n_modules)"""
    with sandbox.scratch() as d:
        root = os.path.join(d, "proj")
        files, err = sandbox.generate(doc, root, output_package=out_pkg, core_package=core_pkg, naming=naming)
        if err is not None:
            return ("rejected", err, 0)
        core = core_pkg or (out_pkg + ".core")
        f, n = pkgcheck.package_findings(PID, root, out_pkg, core)
        return ("ok", f, n)


def bisect(cases, build, describe, stats):
    """verdict per single case: run the pack; when it misbehaves split it, down to single-case documents"""
    doc = build(cases)
    stats["generations"] += 1
    kind, res, n = project_verdict(doc)
    if kind == "ok" and not res:
        stats["clean"] += len(cases)
        return []
    if len(cases) == 1:
        c = cases[0]
        if kind == "rejected":
            stats["rejected"] += 1
            return []
        return [{"sig": sig, "key": describe(c), "msg": f"{describe(c)}: {msg}"} for sig, msg in res]
    mid = len(cases) // 2
    return bisect(cases[:mid], build, describe, stats) + bisect(cases[mid:], build, describe, stats)


def run_case(case):
    stats = {"generations": 0, "clean": 0, "rejected": 0}
    k = case["kind"]
    if k == "layout":
        doc = docs.get(case["doc"], os.environ.get("VERIF_REPO", "/repo"))
        label = f"layout|{case['doc']}|out={case['out']}|core={case['core']}|naming={case['naming']}"
        kind, res, n = project_verdict(doc, case["out"], case["core"], case["naming"])
        if kind == "rejected":
            return {"findings": [], "outcome": "rejected:" + type(res).__name__, "nontrivial": label}
        fs = [{"sig": sig, "key": label, "msg": f"{label}: {msg}"} for sig, msg in res]
        return {"findings": fs, "nontrivial": label, "outcome": "layout:" + ("finding" if fs else "ok"),
                "sample": {"layout": label, "modules_imported": n}}
    if k == "graph":
        doc = graphs.doc_of(case)
        label = f"graph|{case['menu']}|{graphs.describe(case)}"
        kind, res, n = project_verdict(doc)
        if kind == "rejected":
            return {"findings": [], "outcome": "rejected:" + type(res).__name__, "nontrivial": label}
        fs = [{"sig": sig, "key": label, "msg": f"{label}: {msg}"} for sig, msg in res]
        return {"findings": fs, "nontrivial": label if graphs.has_cycle(case["nodes"]) else None,
                "outcome": "graph:" + ("finding" if fs else "ok"), "sample": {"graph": label, "modules_imported": n}}
    if k in ("tag", "union", "colliding"):
        if k == "colliding":
            doc = colliding_doc(case["names"])
            label = "colliding-schemas|" + ",".join(case["names"])
        elif k == "tag":
            doc = tag_doc(case["tag"])
            label = f"tag|{case['tag']!r}"
        else:
            from . import c14

            doc = c14.build_doc([case["union"]])
            label = "union|" + c14.describe(case["union"])
        kind, res, n = project_verdict(doc)
        if kind == "rejected":
            return {"findings": [], "outcome": "rejected:" + type(res).__name__, "nontrivial": label}
        fs = [{"sig": sig, "key": label, "msg": f"{label}: {msg}"} for sig, msg in res]
        return {"findings": fs, "nontrivial": label, "outcome": f"{k}:" + ("finding" if fs else "ok"), "sample": {k: label, "modules_imported": n}}
    if k == "fieldpack":
        fs = bisect(case["cases"], fields.pack_doc, lambda c: "field|" + fields.describe(c), stats)
        return {"findings": fs, "evals": stats["generations"], "nontrivial": ["field|" + fields.describe(c) for c in case["cases"]],
                "nontrivial_multi": True, "outcome": "fields:" + ("finding" if fs else "ok"),
                "sample": {"fields": [fields.describe(c) for c in case["cases"][:3]], "stats": stats}}
    if k == "oppack":
        refs = bool(case.get("refs"))
        fs = bisect(case["cases"], lambda cs: ops.build_doc(cs, refs=refs)[0], lambda c: "op|" + ops.describe(c) + ("|via-component-refs" if refs else ""), stats)
        return {"findings": fs, "evals": stats["generations"], "nontrivial": ["op|" + ops.describe(c) for c in case["cases"]],
                "nontrivial_multi": True, "outcome": "ops:" + ("finding" if fs else "ok"),
                "sample": {"ops": [ops.describe(c) for c in case["cases"][:3]], "stats": stats}}
    raise HarnessError("unknown case kind " + str(k))
