"""C09 - generation is deterministic; re-running on unchanged input is a no-op."""
from __future__ import annotations

import collections
import copy
import json
import os
import shutil
import subprocess
import sys

from .. import kernel, pkgcheck, sandbox
from ..kernel import HarnessError
from ..space import docs

PID = "C09"
ISOLATE = True  # every case (history) in its own forked process, from the same never-executed generator state
LEVEL = "model_checking"
RULE = ("(a) every representative document x PYTHONHASHSEED in {0,1,2[,seed-derived]} x {fresh process, process that generated two other documents first} x 2 output "
        "roots x 2 clocks, each in its own interpreter process: all file trees byte-identical; (b) explicit-state BFS over histories of depth<=3 per layout {embedded core, "
        "sibling core, sibling core with a second client present}: events gen(s, force|noforce) for s in {A, A+one unreferenced schema, B}, edit a generated file, delete "
        "a generated file, with the real generator as transition function and the project tree (content hash) as state; every non-force generation is judged against a "
        "forced generation run on a copy of the same state (differential oracle). non-trivial = distinct process configurations / state-changing transitions")
ASSUMPTIONS = [
    "an existing tree is 'up to date' for spec s iff a forced generation of s on a copy of the project leaves the package and core directories byte-identical",
    "hash seed, process history, clock and output root are the nondeterminism sources varied; the clock is shifted by patching time.time/datetime.now in the child",
]
BOUND = {"quick": "20 documents x 3 seeds x 2 x 2 x 2 processes; histories to depth 3 over 8 events x 3 layouts; 64 environment pairs; 40 per-document no-op re-runs; 42 drifts", "thorough": "4 seeds; histories to depth 4"}
CHUNK = 1
CASE_TIMEOUT_S = 900

LAYOUTS = {"embedded": ("cli", None, None), "sibling": ("cli", "core", None), "sibling+other": ("cli", "core", "other")}
EVENTS = ["gen(A,force)", "gen(A)", "gen(A+,force)", "gen(A+)", "gen(B,force)", "gen(B)", "edit", "delete"]


def spec(name):
    if name == "A":
        return docs.get("petstore")
    if name == "A+":
        d = docs.get("petstore")
        d["components"]["schemas"]["Owner"] = {"type": "object", "properties": {"name": {"type": "string"}}}
        return d
    return docs.get("unions")


def cases(tier, seed):
    out = []
    seeds = [0, 1, 2] + ([3 + seed % 5] if tier != "quick" else [])
    for dn in docs.names():
        out.append({"kind": "procs", "doc": dn, "seeds": seeds})
    depth = 3 if tier == "quick" else 4
    for lay in LAYOUTS:
        for first in EVENTS[:6:1]:
            if "force" not in first and first.startswith("gen"):
                pass
            out.append({"kind": "hist", "layout": lay, "first": first, "depth": depth})
    # environments: a forced generation under one environment, then a non-force re-run under another one; the tree is up to date, so the
    # re-run must succeed and touch nothing however the temp directory and the project root are reached and whether post-processing is on
    for out_pkg in ("cli", "pk.cli"):
        for pp in (False, True):
            for e1 in ENVS:
                for e2 in ENVS:
                    out.append({"kind": "envs", "out": out_pkg, "postprocess": pp, "first_env": e1, "second_env": e2})
    # every representative document: a non-force re-run straight after a forced generation is a successful no-op
    for dn in docs.names():
        for pp in (False, True):
            out.append({"kind": "noop-doc", "doc": dn, "postprocess": pp})
    for dr in DRIFTS:
        for f in ("client.py", "models/pet.py", "endpoints/pets.py", "core/http_transport.py", "mocks/mock_client.py", "__init__.py"):
            out.append({"kind": "drift", "drift": dr, "file": f})
    return out


ENVS = ["plain", "tmp-symlink", "root-symlink", "tmp+root-symlink"]
# (a tree that differs only in its line terminators - CRLF checkout - is read as equal by the generator; that is not demanded to fail)
DRIFTS = ["append-comment", "indent-only", "blank-lines-only", "trailing-space", "inner-space", "one-character", "delete-line"]


def apply_drift(kind, path):
    src = open(path, newline="").read()
    lines = src.split("\n")
    idx = next((i for i, l in enumerate(lines) if l.startswith("        ") and l.strip() and not l.strip().startswith(("#", '"', "'"))), None)
    if kind == "append-comment":
        new = src + "\n# edited by hand\n"
    elif kind == "indent-only":
        if idx is None:
            return False
        lines[idx] = lines[idx][4:]          # the statement moves one block outwards: same text, other meaning
        new = "\n".join(lines)
    elif kind == "blank-lines-only":
        new = "\n".join(l for l in lines if l.strip()) + "\n"
    elif kind == "trailing-space":
        if idx is None:
            return False
        lines[idx] = lines[idx] + "  "
        new = "\n".join(lines)
    elif kind == "inner-space":
        if idx is None:
            return False
        lines[idx] = lines[idx].replace(" = ", "  =  ", 1) if " = " in lines[idx] else lines[idx].replace(" ", "  ", 1)
        new = "\n".join(lines)
    elif kind == "one-character":
        i = src.find("class ")
        new = src[:i + 6] + ("X" if src[i + 6] != "X" else "Y") + src[i + 7:] if i >= 0 else src + "x"
    elif kind == "delete-line":
        if idx is None:
            return False
        del lines[idx]
        new = "\n".join(lines)
    elif kind == "crlf":
        new = src.replace("\n", "\r\n")
    else:
        raise HarnessError(kind)
    if new == src:
        return False
    with open(path, "w", newline="") as f:
        f.write(new)
    return True


def run_noop_doc(case):
    doc = docs.get(case["doc"], os.environ.get("VERIF_REPO", "/repo"))
    label = f"noop-doc|{case['doc']}|postprocess={case['postprocess']}"
    found = []
    with sandbox.scratch("c09n-") as d:
        root = os.path.join(d, "proj")
        spec_path = os.path.join(d, "spec.json")
        files, err = sandbox.generate(doc, root, output_package="cli", force=True, no_postprocess=not case["postprocess"], spec_path=spec_path)
        if err is not None:
            return {"findings": [], "outcome": "noop-doc:rejected", "nontrivial": None}
        before = sandbox.snapshot(root)
        files, err = sandbox.generate(doc, root, output_package="cli", force=False, no_postprocess=not case["postprocess"], spec_path=spec_path, reset=False)
        after = sandbox.snapshot(root)
        if err is not None:
            found.append({"sig": "C09|noop|re-run without force straight after a forced generation fails [embedded]", "key": label,
                          "msg": f"{type(err).__name__}: {str(err)[:150]} | {label}"})
        if before != after:
            ch = sorted(k for k in set(before) | set(after) if before.get(k) != after.get(k))
            found.append({"sig": "C09|noop|re-run without force touches the tree", "key": label, "msg": f"{ch[:5]} | {label}"})
    return {"findings": found, "evals": 2, "nontrivial": label, "outcome": "noop-doc:" + ("finding" if found else "ok"), "states": 2, "transitions": 2, "validated": 2,
            "sample": {"case": label}}


def run_drift(case):
    """an up-to-date tree in which ONE generated file was changed by hand in a small way: the non-force run must notice and touch nothing"""
    doc = docs.get("petstore")
    label = f"drift|{case['drift']}|{case['file']}"
    found = []
    with sandbox.scratch("c09d-") as d:
        root = os.path.join(d, "proj")
        files, err = sandbox.generate(doc, root, output_package="cli", force=True)
        if err is not None:
            raise HarnessError(f"drift: generation failed {err}")
        path = os.path.join(root, "cli", case["file"])
        if not os.path.exists(path) or not apply_drift(case["drift"], path):
            return {"findings": [], "outcome": "drift:not-applicable", "nontrivial": None}
        before = sandbox.snapshot(root)
        files, err = sandbox.generate(doc, root, output_package="cli", force=False, reset=False)
        after = sandbox.snapshot(root)
        if err is None:
            found.append({"sig": f"C09|stale|non-force run reports success although a generated file was changed by hand [{case['drift']}]", "key": label, "msg": label})
        if before != after:
            found.append({"sig": "C09|stale|non-force run over a drifted tree touches it", "key": label, "msg": label})
    return {"findings": found, "evals": 1, "nontrivial": label, "outcome": "drift:" + ("finding" if found else "ok"), "states": 2, "transitions": 1, "validated": 1,
            "sample": {"case": label}}


def run_envs(case):
    import contextlib
    import tempfile

    doc = docs.get("petstore")
    label = f"envs|out={case['out']}|postprocess={case['postprocess']}|{case['first_env']}->{case['second_env']}"
    found = []

    @contextlib.contextmanager
    def env(name, d):
        old_td, old_env = tempfile.tempdir, os.environ.get("TMPDIR")
        try:
            if "tmp" in name:
                real = os.path.join(d, "tmp-real")
                os.makedirs(real, exist_ok=True)
                link = os.path.join(d, "tmp-link")
                if not os.path.lexists(link):
                    os.symlink("tmp-real", link)
                tempfile.tempdir = link
                os.environ["TMPDIR"] = link
            yield os.path.join(d, "proj-link" if "root" in name else "proj")
        finally:
            tempfile.tempdir = old_td
            if old_env is None:
                os.environ.pop("TMPDIR", None)
            else:
                os.environ["TMPDIR"] = old_env

    with sandbox.scratch("c09e-") as d:
        os.makedirs(os.path.join(d, "proj"))
        os.symlink("proj", os.path.join(d, "proj-link"))
        with env(case["first_env"], d) as root:
            files, err = sandbox.generate(doc, root, output_package=case["out"], force=True, no_postprocess=not case["postprocess"], spec_path=os.path.join(d, "spec.json"))
        if err is not None:
            return {"findings": [{"sig": f"C09|envs|forced generation fails in environment {case['first_env']}", "key": label, "msg": f"{type(err).__name__}: {err} | {label}"[:300]}],
                    "outcome": "envs:finding", "nontrivial": label}
        before = sandbox.snapshot(os.path.join(d, "proj"))
        with env(case["second_env"], d) as root:
            files, err = sandbox.generate(doc, root, output_package=case["out"], force=False, no_postprocess=not case["postprocess"], spec_path=os.path.join(d, "spec.json"), reset=False)
        after = sandbox.snapshot(os.path.join(d, "proj"))
        if err is not None:
            found.append({"sig": "C09|envs|noop|re-run without force over an up-to-date tree fails in another environment", "key": label,
                          "msg": f"{type(err).__name__}: {str(err)[:150]} | {label}"})
        if before != after:
            ch = sorted(k for k in set(before) | set(after) if before.get(k) != after.get(k))
            found.append({"sig": "C09|envs|noop|re-run without force touches the tree", "key": label, "msg": f"{ch[:5]} | {label}"})
    return {"findings": found, "evals": 2, "nontrivial": label, "outcome": "envs:" + ("finding" if found else "ok"), "states": 2, "transitions": 2, "validated": 2,
            "sample": {"case": label}}


# ----------------------------------------------------------------------------------------------
def run_procs(case):
    base = kernel.worker_scratch()
    repo = os.environ.get("VERIF_REPO", "/repo")
    results = []
    procs = []
    with sandbox.scratch("c09p-") as d:
        n = 0
        for hs in case["seeds"]:
            for warm in ([], ["cycles", "wrappers"]):
                for ri, rootname in enumerate(("rootA", "a/much/deeper/root_B")):
                    for clock in (0, 86400 * 400 + 12345):
                        n += 1
                        root = os.path.join(d, f"r{n}", rootname)
                        os.makedirs(root)
                        args = {"doc": case["doc"], "warm": warm, "root": root, "out": "pk.cli", "core": None, "clock_offset": clock, "repo": repo}
                        env = dict(os.environ)
                        env["PYTHONHASHSEED"] = str(hs)
                        p = subprocess.Popen([sys.executable, "-m", "mc.gen_proc", json.dumps(args)], stdout=subprocess.PIPE, stderr=subprocess.PIPE,
                                             env=env, cwd=kernel.VERIF)
                        procs.append((f"seed={hs}|warm={bool(warm)}|root={ri}|clock={int(bool(clock))}", p))
                        if len(procs) >= 4:
                            lab, pp = procs.pop(0)
                            o, e = pp.communicate(timeout=300)
                            results.append((lab, o, e))
        for lab, pp in procs:
            o, e = pp.communicate(timeout=300)
            results.append((lab, o, e))
    found = []
    parsed = []
    for lab, o, e in results:
        lines = [l for l in o.decode().splitlines() if l.startswith("{")]
        if not lines:
            raise HarnessError(f"gen_proc produced no result ({lab}): {e.decode()[-400:]}")
        parsed.append((lab, json.loads(lines[-1])))
    base_lab, base_res = parsed[0]
    nontriv = []
    for lab, r in parsed[1:]:
        nontriv.append(f"{case['doc']}|{lab}")
        key = f"{case['doc']}|{base_lab} vs {lab}"
        if ("rejected" in r) != ("rejected" in base_res):
            found.append({"sig": "C09|determinism|accepted in one process configuration, rejected in another", "key": key, "msg": key})
            continue
        if "rejected" in r:
            continue
        if r["hashes"] != base_res["hashes"]:
            a, b = base_res["hashes"], r["hashes"]
            diff = sorted(k for k in set(a) | set(b) if a.get(k) != b.get(k))
            what = []
            for dim in ("seed", "warm", "root", "clock"):
                va = [x for x in base_lab.split("|") if x.startswith(dim)][0]
                vb = [x for x in lab.split("|") if x.startswith(dim)][0]
                if va != vb:
                    what.append(dim)
            loc = sorted({pkgcheck.location_class(os.path.join("pk/cli", os.path.relpath(k, "pk/cli")) if k.startswith("pk/cli") else k, "pk.cli", "pk.cli.core") for k in diff})
            found.append({"sig": f"C09|determinism|file trees differ between two generations of the same document [{'+'.join(loc)}]", "key": key,
                          "msg": f"{key}: differing files {diff[:5]} (dimensions changed: {what})"})
        if r.get("mentions_root"):
            found.append({"sig": "C09|determinism|an emitted file contains the absolute output location", "key": key, "msg": f"{r['mentions_root'][:3]}"})
    # dedupe by signature but keep keys
    return {"findings": found, "evals": len(parsed), "nontrivial": nontriv, "nontrivial_multi": True, "states": 1, "transitions": len(parsed), "validated": len(parsed),
            "outcome": "procs:" + ("differs" if found else "identical"), "sample": {"document": case["doc"], "processes": [l for l, _ in parsed][:4], "files": len(base_res.get("hashes", {}))}}


# ----------------------------------------------------------------------------------------------
def tree_key(root):
    snap = sandbox.snapshot(root, with_mtime=False)
    import hashlib

    h = hashlib.sha256()
    for k in sorted(snap):
        h.update(k.encode())
        h.update(snap[k][2].encode())
    return h.hexdigest()[:16]


def sub_snapshot(root, pkgs, with_mtime=True):
    snap = sandbox.snapshot(root, with_mtime=with_mtime)
    pre = tuple(p.replace(".", "/") + "/" for p in pkgs)
    return {k: v for k, v in snap.items() if k.startswith(pre)}


def _pristine_gen(a):
    """reference generation: in a forked copy of this process whose generator state is put back to 'just imported' first
    (the history's own generations run in the history's process WITHOUT any reset: what they leave behind is the subject)"""
    doc, root, kw = a
    files, err = sandbox.generate(doc, root, reset=True, **kw)
    return None if err is None else f"{type(err).__name__}: {str(err)[:200]}"


def apply_event(ev, root, lay, add, hist):
    """returns True when the tree may have changed"""
    out_pkg, core_pkg, other = LAYOUTS[lay]
    core = core_pkg or out_pkg + ".core"
    pkgs = [out_pkg, core]
    od = pkgcheck.pkg_dir(root, out_pkg)
    if ev == "edit":
        p = os.path.join(od, "client.py")
        if os.path.exists(p):
            with open(p, "a") as f:
                f.write("\n# edited by hand\n")
        return
    if ev == "delete":
        md = os.path.join(od, "models")
        if os.path.isdir(md):
            fs = sorted(f for f in os.listdir(md) if f.endswith(".py") and f != "__init__.py")
            if fs:
                os.unlink(os.path.join(md, fs[0]))
        return
    name = ev[4:].split(",")[0].rstrip(")")
    force = "force" in ev
    doc = spec(name)
    # one spec file per project, edited in place between generations (same path, new content), as users do
    SPEC = os.path.join(os.path.dirname(os.path.dirname(root)), "user-spec", "openapi.json")
    label = " ; ".join(hist + [ev])
    if force:
        files, err = sandbox.generate(doc, root, output_package=out_pkg, core_package=core_pkg, force=True, spec_path=SPEC, reset=False)
        if err is not None:
            add("force", f"forced generation failed: {type(err).__name__}", f"{str(err)[:150]} | {label}", label)
            return
        # independence of prior runs: without other clients the result must equal a generation into an empty project
        if other is None:
            fresh = root + "-fresh"
            shutil.rmtree(fresh, ignore_errors=True)
            e2 = kernel.isolated_call(_pristine_gen, (doc, fresh, dict(output_package=out_pkg, core_package=core_pkg, force=True, spec_path=SPEC)))
            a = {k: v[2] for k, v in sub_snapshot(root, pkgs, False).items()}
            b = {k: v[2] for k, v in sub_snapshot(fresh, pkgs, False).items()}
            shutil.rmtree(fresh, ignore_errors=True)
            if e2 is None and a != b:
                diff = sorted(k for k in set(a) | set(b) if a.get(k) != b.get(k))
                add("prior-runs", "forced generation depends on what was generated before", f"{diff[:4]} | {label}", label)
        return
    if not os.path.isdir(od):
        sandbox.generate(doc, root, output_package=out_pkg, core_package=core_pkg, force=False, spec_path=SPEC, reset=False)
        return
    # non-force over an existing package: differential oracle against a forced run on a copy
    ref = root + "-ref"
    shutil.rmtree(ref, ignore_errors=True)
    shutil.copytree(root, ref, symlinks=True)
    rerr = kernel.isolated_call(_pristine_gen, (doc, ref, dict(output_package=out_pkg, core_package=core_pkg, force=True, spec_path=SPEC)))
    before = sub_snapshot(root, pkgs)
    want = {k: v[2] for k, v in sub_snapshot(ref, pkgs, False).items() if v[0] == "f"}
    have = {k: v[2] for k, v in before.items() if v[0] == "f"}
    shutil.rmtree(ref, ignore_errors=True)
    up_to_date = rerr is None and want == have
    files, err = sandbox.generate(doc, root, output_package=out_pkg, core_package=core_pkg, force=False, spec_path=SPEC, reset=False)
    after = sub_snapshot(root, pkgs)
    if after != before:
        changed = sorted(k for k in set(after) | set(before) if after.get(k) != before.get(k))
        add("noop", "non-force generation touched the existing tree", f"{changed[:4]} | {label}", label)
    if up_to_date and err is not None:
        add("noop", f"re-run without force over an up-to-date tree fails [{lay}]", f"{type(err).__name__}: {str(err)[:100]} | {label}", label)
    if not up_to_date and err is None and rerr is None:
        diff = sorted(k for k in set(want) | set(have) if want.get(k) != have.get(k))
        kinds = sorted({"missing-file" if k not in have else ("extra-file" if k not in want else "content") for k in diff})
        add("stale", f"non-force run reports success although the tree differs from what would be generated [{'+'.join(kinds)}]", f"{diff[:4]} | {label}", label)


def run_hist(case):
    lay = case["layout"]
    out_pkg, core_pkg, other = LAYOUTS[lay]
    found = []
    seen = set()

    def add(clause, disc, detail, key):
        sig = f"C09|{clause}|{disc}"
        k = f"{lay}|{key}"
        if (sig, k) not in seen:
            seen.add((sig, k))
            found.append({"sig": sig, "key": k, "msg": detail})

    transitions = 0
    nontriv = []
    with sandbox.scratch("c09h-") as base:
        n = [0]

        def new_dir():
            n[0] += 1
            return os.path.join(base, f"s{n[0]}")

        init = new_dir()
        root0 = os.path.join(init, "proj")
        os.makedirs(root0)
        if other:
            f, e = sandbox.generate(spec("B"), root0, output_package=other, core_package=core_pkg, force=True, spec_name="other.json")
            if e is not None:
                raise HarnessError(f"cannot prepare second client: {e}")
        states = {tree_key(root0): (init, [])}
        frontier = collections.deque([(tree_key(root0), 0)])
        while frontier:
            key, depth = frontier.popleft()
            sdir, hist = states[key]
            if depth >= case["depth"]:
                continue
            evs = [case["first"]] if depth == 0 else EVENTS
            for ev in evs:
                tdir = new_dir()
                shutil.copytree(sdir, tdir, symlinks=True)
                root = os.path.join(tdir, "proj")
                apply_event(ev, root, lay, add, hist)
                transitions += 1
                nk = tree_key(root)
                if nk != key:
                    nontriv.append(f"{lay}|{' ; '.join(hist + [ev])}")
                if nk not in states:
                    states[nk] = (tdir, hist + [ev])
                    frontier.append((nk, depth + 1))
                else:
                    shutil.rmtree(tdir, ignore_errors=True)
    return {"findings": found, "evals": transitions, "nontrivial": nontriv, "nontrivial_multi": True,
            "states": len(states), "transitions": transitions, "validated": transitions,
            "outcome": f"hist:{lay}:" + ("finding" if found else "ok"),
            "sample": {"layout": lay, "first_event": case["first"], "states": len(states), "transitions": transitions,
                       "deepest": max((h for _, h in states.values()), key=len)}}


def run_case(case):
    if case["kind"] == "procs":
        return run_procs(case)
    if case["kind"] == "envs":
        return run_envs(case)
    if case["kind"] == "drift":
        return run_drift(case)
    if case["kind"] == "noop-doc":
        return run_noop_doc(case)
    return run_hist(case)
