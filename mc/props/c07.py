"""C07 - every operation is reachable exactly once per tag; none silently dropped."""
from __future__ import annotations

import copy
import itertools
import keyword
import os
import re

from .. import sandbox
from ..kernel import HarnessError
from ..space import ops
from . import c19

PID = "C07"
LEVEL = "exploration"
RULE = ("slice 1: every set of <=4 operations over paths {/a,/a/{id},/b} x methods {get,post,delete} (255 sets) x 3 naming strategies; slice 2: 6 "
        "representative operation sets x 12 tag patterns x 8 operationId patterns x 3 naming strategies; slice 3: the 6 sets x renderings {YAML block, "
        "YAML with unquoted numeric status keys} x 3 strategies. The generated client is driven in the runtime-only interpreter: every public async "
        "method of every tag client reachable from APIClient is called and identified by the (HTTP method, path) it hits - names are not trusted. "
        "non-trivial = distinct (operation set, tags, ids, strategy, rendering) documents")
ASSUMPTIONS = [
    "tags that differ only in case / punctuation are one tag (the generator's documented normalisation, re-implemented as lower-cased alphanumerics)",
    "a document the generator rejects with an exception satisfies 'fails visibly'",
]
BOUND = {"quick": "129 sets (<=3 ops) x 3 strategies + 4 sets x 15 tag patterns x 8 id patterns x 3 + renderings (with and without a default key) + 120 spelling pairs + ~560 single-shape documents (inline and component refs) + 3 route documents + shared path items + path-item $ref + 3-6 equal operationIds + status-range keys + strategy given by its string spelling = 3087 documents", "thorough": "same + slice 2 over all 255 sets for 4 tag patterns x 3 id patterns"}
CHUNK = 4

COMBOS = [(p, m) for p in ("/a", "/a/{id}", "/b") for m in ("get", "post", "delete")]
REP_SETS = [[0], [0, 1], [0, 3], [1, 4, 5], [0, 3, 6], [0, 1, 4, 7]]
SPELLINGS = ["DataSources", "data-sources", "data_sources", "DATASOURCES", "datasources", "Data Sources"]
TAG_PATTERNS = ["none", "one", "two-alt", "multi", "case", "punct", "space", "upper", "multi-case", "mixed-none", "three", "digits", "dot", "slash", "colon-plus", "default-mix"]
ID_PATTERNS = ["absent", "snake", "camel", "duplicate", "dup-after-sanitise", "fastapi", "keyword", "nonident"]
STRATEGIES = ["operationId", "clean", "path"]


def tags_for(pattern, i):
    if pattern.startswith("spell:"):
        a, b = pattern[6:].split("|")
        return [[a], [b]][i % 2]
    return {
        "none": None, "one": ["x"], "two-alt": [["x"], ["y"]][i % 2], "multi": ["x", "y"], "case": [["x"], ["X"]][i % 2],
        "punct": [["x-y"], ["x_y"]][i % 2], "space": [["x y"], ["xY"]][i % 2], "upper": ["DataSources"],
        "multi-case": [["x", "y"], ["Y"]][i % 2], "mixed-none": [None, ["x"]][i % 2], "three": [["x"], ["y"], ["z"]][i % 3],
        "digits": [["v1"], ["v2"]][i % 2], "dot": [["x.y"], ["x-y"]][i % 2], "slash": [["x/y"], ["x_y"]][i % 2], "colon-plus": [["x:y"], ["x+y"]][i % 2],
        # untagged operations next to operations tagged with a spelling of the name the generator uses for untagged ones
        "default-mix": [None, ["default"], ["Default"]][i % 3],
    }[pattern]


def id_for(pattern, i, path, method):
    norm = re.sub(r"_+", "_", re.sub(r"[^0-9a-zA-Z_]", "_", re.sub(r"[{}]", "", path.strip("/")))).strip("_").lower()
    return {
        "absent": None, "snake": f"do_thing_{i}", "camel": f"doThing{i}", "duplicate": "doThing", "dup-after-sanitise": ["do_thing", "doThing", "do-thing", "DoThing"][i % 4],
        "fastapi": f"fn{i}_{norm}_{method}", "keyword": ["class", "import", "def", "None"][i % 4], "nonident": [f"{i}op", f"get thing {i}", f"op.{i}", f"op/{i}"][i % 4],
    }[pattern]


def cases(tier, seed):
    out = []
    sets = []
    for k in range(1, 4 if tier == "quick" else 5):
        sets += [list(c) for c in itertools.combinations(range(9), k)]
    for s in sets:
        for st in STRATEGIES:
            out.append({"set": s, "tags": "none", "ids": "absent", "strategy": st, "fmt": "json"})
    for s in (REP_SETS[1:5] if tier == "quick" else REP_SETS):
        for tp in TAG_PATTERNS:
            for ip in ID_PATTERNS:
                for st in STRATEGIES:
                    out.append({"set": s, "tags": tp, "ids": ip, "strategy": st, "fmt": "json"})
        for fmt in ("yaml", "yaml-intkeys"):
            for st in STRATEGIES:
                out.append({"set": s, "tags": "one", "ids": "snake", "strategy": st, "fmt": fmt})
                # the same with a non-numeric response key next to the numeric ones (default): under yaml-intkeys the mapping then mixes int and str keys
                out.append({"set": s, "tags": "one", "ids": "snake", "strategy": st, "fmt": fmt, "with_default": True})
        out.append({"set": s, "tags": "one", "ids": "snake", "strategy": "operationId", "fmt": "json", "with_default": True})
    for a, b in itertools.permutations(SPELLINGS, 2):
        for s in (REP_SETS[1:5] if tier == "quick" else REP_SETS):
            out.append({"set": s, "tags": f"spell:{a}|{b}", "ids": "snake", "strategy": "operationId", "fmt": "json"})
    # every operation SHAPE must be reachable too (parameters in every location, every body kind incl. media types without a
    # schema, every response content kind): one document per shape
    from . import c01

    for g in ops.shared_item_groups():   # several operations under one path item with path-level parameters
        out.append({"shapes": g, "strategy": "operationId", "fmt": "json"})
        out.append({"shapes": g, "strategy": "operationId", "fmt": "json", "refs": True})
    shapes = [c for c in c01.op_cases("quick") if c.get("item") is None] + [ops.op("post", "/raw", [], {"kind": k, "required": True}, {"204": "none"}) for k in ("octet-noschema", "json-noschema", "multipart-noschema")]
    for sh in shapes:  # one shape per document: a shape whose package does not import (C01's subject) must not hide the others
        out.append({"shapes": [sh], "strategy": "operationId", "fmt": "json"})
        if sh["params"] or sh.get("body"):
            # the same shape written with components/{parameters,requestBodies,responses} $refs
            out.append({"shapes": [sh], "strategy": "operationId", "fmt": "json", "refs": True})
    # status-code range keys (2XX / 4XX / 5XX) next to and instead of numeric ones; the strategy selected by its string spelling through the API
    for s in (REP_SETS[1:5] if tier == "quick" else REP_SETS):
        for st in STRATEGIES:
            out.append({"set": s, "tags": "one", "ids": "snake", "strategy": st, "fmt": "json", "ranges": "next-to"})
            out.append({"set": s, "tags": "one", "ids": "snake", "strategy": st, "fmt": "yaml", "ranges": "only"})
            for ip in ("snake", "fastapi", "absent"):
                out.append({"set": s, "tags": "one", "ids": ip, "strategy": st, "fmt": "json", "strategy_as_str": True})
    # a path item that carries `$ref` AND inline operations (both legal); five operations with one operationId sharing a tag client
    out.append({"special": "pathitem-ref", "strategy": "operationId", "fmt": "json"})
    for n in (3, 4, 5, 6):
        out.append({"special": "same-id", "n": n, "strategy": "operationId", "fmt": "json"})
    # naming strategy `clean` with FastAPI-style ids on routes that look like reserved names / start with a digit / use camelCase
    for strategy in ("clean", "operationId", "path"):
        out.append({"routes": ["/config", "/models", "/2fa/verify", "/userProfiles", "/import", "/items/{item_id}/type"], "strategy": strategy, "fmt": "json"})
    if tier != "quick":
        for s in sets:
            for tp in ("multi", "case", "punct", "mixed-none"):
                for ip in ("snake", "duplicate", "fastapi"):
                    out.append({"set": s, "tags": tp, "ids": ip, "strategy": "operationId", "fmt": "json"})
    seen = set()
    uniq = []
    for c in out:
        k = repr(c)
        if k not in seen:
            seen.add(k)
            uniq.append(c)
    return uniq


def fastapi_id(handler, path, method):
    """FastAPI's own formula: f"{name}{path}" with non-word characters replaced by "_", then "_" + method"""
    return re.sub(r"\W", "_", f"{handler}{path}") + "_" + method.lower()


def build(case):
    if case.get("special") == "pathitem-ref":
        ok = {"204": {"description": "d"}}
        doc = {"openapi": "3.1.0", "info": {"title": "P", "version": "1"},
               "paths": {"/items/{id}": {"$ref": "#/components/pathItems/ItemCommon",
                                         "get": {"operationId": "getItem", "tags": ["admin"], "parameters": [{"name": "id", "in": "path", "required": True, "schema": {"type": "integer"}}], "responses": ok},
                                         "delete": {"operationId": "deleteItem", "tags": ["admin"], "parameters": [{"name": "id", "in": "path", "required": True, "schema": {"type": "integer"}}], "responses": ok}},
                         "/ping": {"get": {"operationId": "ping", "tags": ["misc"], "responses": ok}}},
               "components": {"pathItems": {"ItemCommon": {"summary": "common", "description": "shared description"}}}}
        cs = [ops.op("get", "/items/{id}", [ops.param("id", "path", True, "integer")], None, {"204": "none"}, ["admin"], "getItem"),
              ops.op("delete", "/items/{id}", [ops.param("id", "path", True, "integer")], None, {"204": "none"}, ["admin"], "deleteItem"),
              ops.op("get", "/ping", [], None, {"204": "none"}, ["misc"], "ping")]
        return doc, cs
    if case.get("special") == "same-id":
        cs = [ops.op("get", f"/res{i}", [], None, {"204": "none"}, [f"r{'abcdef'[i]}", "directory"], "list") for i in range(case["n"])]
        doc, meta = ops.build_doc(cs, auto_tag=False, auto_id=False, prefix=False)
        return doc, cs
    if "shapes" in case:
        cs = [dict(c) for c in case["shapes"]]
        doc, meta = ops.build_doc(cs, refs=bool(case.get("refs")))
        out = []
        for c, m in zip(cs, meta):
            c2 = dict(c)
            c2["path"] = m["path"]
            c2["tags"] = [m["tag"]]
            out.append(c2)
        return doc, out
    if "routes" in case:
        cs = []
        for i, r in enumerate(case["routes"]):
            for m in ("get", "post"):
                params = [ops.param(v, "path", True, "string") for v in re.findall(r"\{([^}]+)\}", r)]
                c = ops.op(m, r, params, {"kind": "json-ref", "required": True} if m == "post" else None, {"200": "json-model"}, ["things"],
                           fastapi_id(f"handler{i}{m}", r, m))
                c["handler"] = f"handler{i}{m}"
                cs.append(c)
        doc, meta = ops.build_doc(cs, auto_tag=False, auto_id=False, prefix=False)
        return doc, cs
    cs = []
    for i, ci in enumerate(case["set"]):
        path, method = COMBOS[ci]
        params = [ops.param("id", "path", True, "integer")] if "{id}" in path else []
        body = {"kind": "json-ref", "required": True} if method == "post" else None
        resp = {"200": "json-model"} if method != "delete" else {"204": "none"}
        if case.get("with_default"):
            resp["default"] = "json-other"
        if case.get("ranges") == "next-to":
            resp["4XX"] = "json-other"
            resp["5XX"] = "none"
        elif case.get("ranges") == "only":
            resp = {"2XX": "json-model" if method != "delete" else "none", "4XX": "json-other"}
        c = ops.op(method, path, params, body, resp, tags_for(case["tags"], i), id_for(case["ids"], i, path, method))
        cs.append(c)
    doc, meta = ops.build_doc(cs, auto_tag=False, auto_id=False, prefix=False)
    return doc, cs


def norm_tag(t):
    return re.sub(r"[\W_]+", "", t).lower()


def run_case(case):
    doc, cs = build(case)
    if "shapes" in case:
        label = "shapes=" + " ;; ".join(ops.describe(c) for c in case["shapes"]) + ("|via-component-refs" if case.get("refs") else "")
    elif "special" in case:
        label = f"special={case['special']}" + (f"|n={case['n']}" if "n" in case else "")
    elif "routes" in case:
        label = f"routes={case['routes']}|{case['strategy']}"
    else:
        label = f"ops={[COMBOS[i][1].upper() + ' ' + COMBOS[i][0] for i in case['set']]}|tags={case['tags']}|ids={case['ids']}|{case['strategy']}|{case['fmt']}" + ("|+default" if case.get("with_default") else "") + (f"|ranges={case['ranges']}" if case.get("ranges") else "") + ("|strategy-as-str" if case.get("strategy_as_str") else "")
    case = dict({"tags": "-", "ids": "-", "set": []}, **case)
    found = []
    seen = set()

    def add(clause, disc, detail, key=None):
        sig = f"C07|{clause}|{disc}"
        if (sig, key) not in seen:
            seen.add((sig, key))
            found.append({"sig": sig, "key": key or label, "msg": f"{detail} in {label}"})

    gdoc = c19.int_keys(doc) if case["fmt"] == "yaml-intkeys" else doc
    fmt = "yaml" if case["fmt"] == "yaml-intkeys" else case["fmt"]
    with sandbox.scratch() as d:
        root = os.path.join(d, "proj")
        files, err = sandbox.generate(gdoc, root, naming=case["strategy"], fmt=fmt, naming_as_str=bool(case.get("strategy_as_str")))
        if err is not None:
            return {"findings": [], "outcome": "rejected:" + type(err).__name__, "nontrivial": label}
        res = sandbox.zygote_job({"roots": [root], "allow": ["cli"], "driver": "reach", "args": {"package": "cli", "core": "cli.core"}})
    if "_crash" in res:
        raise HarnessError("reach driver crashed: " + res["_crash"] + res.get("_tb", ""))
    for e in res["errors"]:
        if e["stage"] == "make_client":
            if "shapes" in case:
                return {"findings": [], "nontrivial": label, "outcome": "unimportable-shape"}  # C01 owns importability of single shapes
            add("client-unusable", e["error"], e["raw"])
    if any(e["stage"] == "make_client" for e in res["errors"]):
        return {"findings": found, "nontrivial": label, "outcome": "client-unusable"}
    # hits: op index -> {client prop: [method names]}
    hits = {i: {} for i in range(len(cs))}
    rx = [(c["method"].upper(), re.compile(ops.path_regex("/api" + c["path"]))) for c in cs]
    for prop, info in res["clients"].items():
        for mname, m in info["methods"].items():
            if not m.get("valid_identifier"):
                add("method-name", "method name is not a valid identifier", f"{prop}.{mname}")
            matched = False
            for hm, hp in m["hits"]:
                for i, (method, r) in enumerate(rx):
                    if hm == method and r.match(hp):
                        hits[i].setdefault(prop, []).append(mname)
                        matched = True
            if not m["hits"]:
                add("method-dead", "a public method sends no request" + (f" ({m.get('error')})" if m.get("error") else ""), f"{prop}.{mname}: {m.get('raw')}")
            elif not matched:
                add("method-stray", "a public method hits a (method, path) that no operation declares", f"{prop}.{mname}: {m['hits']}")
    # per operation: one client per distinct tag, exactly one method in each
    tag_ops = {}
    for i, c in enumerate(cs):
        keys = sorted({norm_tag(t) for t in (c["tags"] or ["default"])})
        for k in keys:
            tag_ops.setdefault(k, []).append(i)
        clients = hits[i]
        if not clients:
            add("dropped", "operation not callable on any client although generation succeeded", f"{c['method'].upper()} {c['path']}")
            continue
        if len(clients) != len(keys):
            add("tag-count", f"operation with {len(keys)} tag(s) reachable on {len(clients)} client(s)", f"{c['method'].upper()} {c['path']} tags={c['tags']} clients={sorted(clients)}")
        for prop, names in clients.items():
            if len(names) != 1:
                add("duplicate", "operation reachable through more than one method of one client", f"{prop}: {names}")
    # consistent tag -> client assignment
    cand = {}
    for k, idxs in tag_ops.items():
        sets_ = [set(hits[i]) for i in idxs if hits[i]]
        cand[k] = set.intersection(*sets_) if sets_ else set()
        if sets_ and not cand[k]:
            add("tag-client", "operations sharing a tag are not on one common client", f"tag {k}: {[sorted(hits[i]) for i in idxs]}")
    keys = [k for k in cand if cand[k]]
    if keys:
        ok = False
        for combo in itertools.product(*[sorted(cand[k]) for k in keys]):
            if len(set(combo)) == len(combo):
                ok = True
                break
        if not ok:
            add("tag-client", "distinct tags do not get distinct clients", f"{ {k: sorted(cand[k]) for k in keys} }")
    # collapse: one method serving two operations
    by_method = {}
    for i in hits:
        for prop, names in hits[i].items():
            for n in names:
                by_method.setdefault((prop, n), set()).add(i)
    for (prop, n), idxs in by_method.items():
        if len(idxs) > 1:
            add("collapsed", "distinct operations collapse into one method", f"{prop}.{n} serves {sorted(idxs)}")
    # naming strategy
    names_by_op = {i: sorted({n for names in hits[i].values() for n in names}) for i in hits}
    if case["strategy"] == "operationId" and case["ids"] == "snake":
        for i, c in enumerate(cs):
            if hits[i] and names_by_op[i] != [c["op_id"]]:
                add("naming", "operationId strategy does not use a unique snake_case operationId verbatim", f"{c['op_id']} -> {names_by_op[i]}")
    if "routes" in case and case["strategy"] == "clean":
        for i, c in enumerate(cs):
            if hits[i] and names_by_op[i] != [c["handler"]]:
                add("naming", "clean strategy does not strip the FastAPI suffix", f"{c['op_id']} -> {names_by_op[i]} (handler {c['handler']})",
                    key=f"route {c['method'].upper()} {c['path']}|clean")
    if case["strategy"] == "clean" and case["ids"] == "fastapi":
        for i, c in enumerate(cs):
            if hits[i] and names_by_op[i] != [f"fn{i}"]:
                add("naming", "clean strategy does not strip the FastAPI suffix", f"{c['op_id']} -> {names_by_op[i]}")
    sample = {"case": label, "clients": {p: sorted(i["methods"]) for p, i in res["clients"].items()}}
    return {"findings": found, "nontrivial": label, "outcome": "reach:" + ("finding" if found else "ok"), "sample": sample,
            "names": {"|".join(f"{COMBOS[ci][1]} {COMBOS[ci][0]}" for ci in case["set"]) + "|" + case["tags"]: names_by_op}
            if case["strategy"] == "path" and case["set"] else None}


def finalize(cases, results, tier, seed):
    """path strategy: method names must be invariant under changing operationIds (cross-case comparison)"""
    groups = {}
    extra = []
    for i, (c, r) in enumerate(zip(cases, results)):
        if c["strategy"] != "path" or not r.get("names") or c["fmt"] != "json":
            continue
        for k, v in r["names"].items():
            groups.setdefault(k, []).append((c["ids"], v, i))
    for k, lst in groups.items():
        base = lst[0]
        for ids, v, i in lst[1:]:
            if v != base[1] and all(v.values()) and all(base[1].values()):
                extra.append({"sig": "C07|naming|path strategy: method names change with the operationIds", "case_index": i,
                              "key": f"{k}|{ids}", "msg": f"{k}: ids={base[0]} -> {base[1]} but ids={ids} -> {v}"})
    return {"_findings": extra}
