"""C12 - generated clients are self-contained (no dependency on the generator)."""
from __future__ import annotations

import hashlib
import os

from .. import pkgcheck, sandbox
from ..kernel import HarnessError
from ..space import docs, fields, graphs, ops
from . import c01

PID = "C12"
LEVEL = "exploration"
RULE = ("every package produced for: output layouts (depth 1..3 x 5 core placements) x representative documents, every field-shape pack, every "
        "operation-shape pack, schema graphs G(2,1) (wrapper classes, unions, discriminators, mocks, streaming templates are all reached). For each: "
        "ast-walk of EVERY import statement of every emitted file (top level, nested in functions, under TYPE_CHECKING); import of every module in an "
        "interpreter where the generator is blocked; byte comparison of every runtime file in the core with the file shipped in the generator. "
        "non-trivial = distinct (case) whose package contains at least one non-core module")
ASSUMPTIONS = [
    "allowed import roots: the standard library of the running interpreter, httpx, cattrs/attrs, typing_extensions, the emitted package, its core "
    "package and their ancestor packages",
    "the set of runtime files is read from pyopenapi_gen.emitters.core_emitter.RUNTIME_FILES; files the core emitter renders from templates "
    "(config.py, __init__.py, exception_aliases.py, py.typed, README) are not byte-compared",
]
BOUND = {"quick": "every case of C01 quick (graphs: prefix names only) + 12 stale-core histories + 20 core-switch histories + 32 filesystem layouts + 93 hostile-text documents + 9 two-client histories of the project root; 57 field packs; 164 operation packs (incl. deprecated operations); runtime-only interpreter without the generator, its dependencies or their distribution metadata; G(2,1) without required flag, prefix names",
         "thorough": "45 layouts x 11 documents; all field/operation packs of C01 thorough; G(2,1) full"}
CHUNK = 4
ISOLATE = True  # every case in its own forked process: generator globals carry history only inside a case


def cases(tier, seed):
    out = []
    for core in (None, "core", "pk.core"):
        for second in (False, True):
            for tamper in ("append", "truncate"):
                out.append({"kind": "stale-core", "core": core, "second_client": second, "tamper": tamper})
    cores = [None, "core", "pk.core", "shared_core", "pk.a.b.core"]
    for a in cores:
        for b in cores:
            if a != b:
                out.append({"kind": "core-switch", "first": a, "second": b, "doc": "wrappers"})
                if tier != "quick":
                    out.append({"kind": "core-switch", "first": a, "second": b, "doc": "codes"})
    # text of the document that, if it ever reached the emitted code unescaped, would make the client import the generator
    from . import c15

    for pos in c15.POSITIONS:
        for pk in HOSTILE:
            out.append({"kind": "hostile-text", "position": pos, "payload": pk})
    # two clients sharing one core, generated one after the other (the second one with fewer error statuses / other tags)
    for core in ("core", "pk.core", "shared.runtime"):
        for order in (("s404+500", "s404"), ("s404", "s404+500"), ("s422+500", "snone")):
            out.append({"kind": "two-clients", "core": core, "specs": list(order)})
    for fs in ("ancestor-symlink", "root-symlink", "root-dotdot", "root-relative"):
        for o, c in (("acme.api", None), ("acme.api", "acme.core"), ("acme.api", "api_core"), ("cli", None)):
            for dn in (("petstore", "unions") if tier == "quick" else docs.names()):
                out.append({"kind": "fs-layout", "fs": fs, "out": o, "core": c, "doc": dn})
    for c in c01.cases(tier, seed):
        if c["kind"] == "graph":
            if tier == "quick" and c["menu"] != "prefix":
                continue
        out.append(c)
    return out


HOSTILE = {
    "dq-fence": 'see """\nfrom pyopenapi_gen import generate_client\nimport pyopenapi_gen.core.utils\n""" for details',
    "sq-fence": "see \'\'\'\nfrom pyopenapi_gen import generate_client\n\'\'\' for details",
    "newline-import": "first line\nimport pyopenapi_gen\nlast line",
}
RUNTIME_MODULES = ["http_transport.py", "exceptions.py", "streaming_helpers.py", "pagination.py", "cattrs_converter.py", "utils.py",
                   "auth/base.py", "auth/plugins.py"]  # the documented runtime (README / core package docs)


def shipped_core_dir():
    import pyopenapi_gen

    return os.path.join(os.path.dirname(os.path.abspath(pyopenapi_gen.__file__)), "core")


def check_project(doc, out_pkg="cli", core_pkg=None, naming="operationId", stale=None, fs=None, reset=True):
    with sandbox.scratch() as d:
        root = os.path.join(d, "proj")
        gen_root = root
        cwd = None
        # filesystem layouts of the project root (the emitted code may not depend on how the root is spelled or linked)
        if fs == "ancestor-symlink":      # <root>/<top package> is a symlink to a directory outside the project root
            top = out_pkg.split(".")[0]
            os.makedirs(os.path.join(d, "vendor", top + "_src"))
            os.makedirs(root)
            os.symlink(os.path.join("..", "vendor", top + "_src"), os.path.join(root, top))
        elif fs == "root-symlink":        # the project root itself is a symlink
            os.makedirs(os.path.join(d, "real"))
            os.symlink("real", root)
        elif fs == "root-dotdot":         # the project root is given with a .. component
            os.makedirs(os.path.join(root, "x"))
            gen_root = os.path.join(root, "x", "..")
        elif fs == "root-relative":       # the project root is given relative to the working directory
            os.makedirs(root)
            cwd = os.getcwd()
            os.chdir(d)
            gen_root = "proj"
        try:
            files, err = sandbox.generate(doc, gen_root, output_package=out_pkg, core_package=core_pkg, naming=naming, reset=reset)
        finally:
            if cwd is not None:
                os.chdir(cwd)
        if err is not None:
            return None
        if stale is not None:
            # history: the core directory already holds runtime modules that differ (older release / hand edit); a forced
            # regeneration (of this or of a second client) must leave the shipped runtime byte for byte
            core0 = pkgcheck.pkg_dir(root, core_pkg or (out_pkg + ".core"))
            for sub in RUNTIME_MODULES:
                p = os.path.join(core0, sub)
                if os.path.exists(p):
                    if stale["tamper"] == "append":
                        with open(p, "a") as f:
                            f.write("\n# stale copy\n")
                    else:
                        open(p, "w").close()
            if stale["second_client"]:
                out_pkg = out_pkg.rsplit(".", 1)[0] + ".other" if "." in out_pkg else "other"
            files, err = sandbox.generate(doc, root, output_package=out_pkg, core_package=core_pkg, naming=naming, force=True, reset=False)
            if err is not None:
                return None
        core = core_pkg or (out_pkg + ".core")
        found = []
        bad, nfiles, nimports = pkgcheck.scan_imports(root, out_pkg, core)
        for rel, mod, why in bad:
            loc = pkgcheck.location_class(rel, out_pkg, core)
            if why.endswith("was not emitted") and loc != "core":
                continue  # a dangling import between generated modules is C01's subject (the package does not import)
            found.append((f"C12|import-scan|{loc}|{why}|{mod.split(chr(46))[0]}|{os.path.basename(rel)}", f"{rel} imports {mod}"))
        # runtime under the blocker: anything that needs the generator fails to import
        res = pkgcheck.import_verdict(root, out_pkg, core)
        for f in res["failures"]:
            if f["kind"] == "import" and ("blocked: not a runtime dependency" in f["raw"]):
                loc = pkgcheck.location_class(f.get("origin"), out_pkg, core)
                found.append((f"C12|blocked-import|{loc}|needs a module that is not a runtime dependency", f"{f['module']}: {f['raw']}"))
            elif f["kind"] == "import" and "PackageNotFoundError" in f["raw"]:
                # the interpreter has no distribution metadata of the generator either (it is not installed there)
                loc = pkgcheck.location_class(f.get("origin"), out_pkg, core)
                found.append((f"C12|blocked-import|{loc}|needs the installed distribution of a package that is not a runtime dependency", f"{f['module']}: {f['raw']}"))
        # byte equality of the runtime files: every emitted core module that has a counterpart shipped in the generator's
        # core package must be that file byte for byte, and the documented runtime modules must all be there
        core_dir = pkgcheck.pkg_dir(root, core)
        shipped = shipped_core_dir()
        nrt = 0
        for sub in RUNTIME_MODULES:
            if not os.path.exists(os.path.join(core_dir, sub)):
                found.append(("C12|runtime-file|core|runtime module missing from the core package", f"{sub} not emitted"))
        for p in sandbox.py_files(core_dir):
            sub = os.path.relpath(p, core_dir).replace(os.sep, "/")
            if sub.endswith("__init__.py"):
                continue
            src = os.path.join(shipped, sub)
            if not os.path.exists(src):
                continue
            nrt += 1
            if open(p, "rb").read() != open(src, "rb").read():
                found.append(("C12|runtime-file|core|runtime module differs from the one shipped with the generator", f"{sub} differs"))
        return found, nfiles, nimports, nrt


def check_two_clients(case):
    from . import c11

    core = case["core"]
    pre = core.rsplit(".", 1)[0] + "." if "." in core else ""
    clients = [pre + "client_a", pre + "client_b"]
    with sandbox.scratch() as d:
        root = os.path.join(d, "proj")
        for c, sp in zip(clients, case["specs"]):
            files, err = sandbox.generate(c11.spec_doc(sp), root, output_package=c, core_package=core, spec_name=f"{sp}.json", reset=(c == clients[0]))
            if err is not None:
                return None
        found = []
        nfiles = nimports = 0
        for c in clients:
            bad, nf, ni = pkgcheck.scan_imports(root, c, core)
            nfiles += nf
            nimports += ni
            for rel, mod, why in bad:
                loc = pkgcheck.location_class(rel, c, core)
                if why.endswith("was not emitted") and loc != "core":
                    continue
                found.append((f"C12|import-scan|{loc}|{why}|{mod.split(chr(46))[0]}|{os.path.basename(rel)}", f"{rel} imports {mod}"))
            res = pkgcheck.import_verdict(root, c, core)
            for f in res["failures"]:
                if f["kind"] != "import":
                    continue
                if "blocked: not a runtime dependency" in f["raw"]:
                    found.append((f"C12|blocked-import|{pkgcheck.location_class(f.get('origin'), c, core)}|needs a module that is not a runtime dependency", f"{f['module']}: {f['raw']}"))
                elif pkgcheck.location_class(f.get("origin"), c, core) == "core":
                    # the shared runtime itself does not import where the generator is absent: neither client works stand-alone
                    found.append((f"C12|works-standalone|core|the shared core does not import in the runtime-only interpreter|{f['error']}", f"{f['module']}: {f['raw']}"))
        return found, nfiles, nimports, 0


def run_case(case):
    k = case["kind"]
    if k == "layout":
        doc = docs.get(case["doc"], os.environ.get("VERIF_REPO", "/repo"))
        label = f"layout|{case['doc']}|out={case['out']}|core={case['core']}|naming={case['naming']}"
        r = check_project(doc, case["out"], case["core"], case["naming"])
    elif k == "core-switch":
        # history: the same output package is generated in ONE process first with core layout `first`, then (into a fresh project)
        # with core layout `second`; the second tree must refer to its own designated core only
        doc = docs.get(case["doc"])
        out_pkg = "pk.cli" if (case["first"] or "").startswith("pk.") or (case["second"] or "").startswith("pk.") else "cli"
        with sandbox.scratch() as d0:
            sandbox.generate(doc, os.path.join(d0, "proj"), output_package=out_pkg, core_package=case["first"], reset=False)
        label = f"core-switch|{case['doc']}|out={out_pkg}|first={case['first']}|second={case['second']}"
        r = check_project(doc, out_pkg, case["second"], reset=False)
    elif k == "hostile-text":
        from . import c15

        doc = c15.build({case["position"]: HOSTILE[case["payload"]]})
        label = f"hostile-text|{case['position']}|{case['payload']}"
        r = check_project(doc)
    elif k == "two-clients":
        from . import c11

        label = f"two-clients|core={case['core']}|{case['specs'][0]} then {case['specs'][1]}"
        r = check_two_clients(case)
    elif k == "fs-layout":
        doc = docs.get(case["doc"])
        label = f"fs-layout|{case['fs']}|{case['doc']}|out={case['out']}|core={case['core']}"
        r = check_project(doc, case["out"], case["core"], fs=case["fs"])
        if r is not None and r[1] == 0:
            raise HarnessError("fs-layout: no emitted file was scanned")
    elif k == "stale-core":
        doc = docs.get("petstore")
        label = f"stale-core|core={case['core']}|second_client={case['second_client']}|tamper={case['tamper']}"
        if case["core"] is None and case["second_client"]:
            return {"findings": [], "outcome": "n/a", "nontrivial": None}
        r = check_project(doc, "pk.cli" if case["core"] == "pk.core" else "cli", case["core"], stale=case)
    elif k == "graph":
        doc = graphs.doc_of(case)
        label = f"graph|{case['menu']}|{graphs.describe(case)}"
        r = check_project(doc)
    elif k == "fieldpack":
        doc = fields.pack_doc(case["cases"])
        label = "fields|" + ";".join(fields.describe(c) for c in case["cases"])
        r = check_project(doc)
    elif k == "colliding":
        doc = c01.colliding_doc(case["names"])
        label = "colliding-schemas|" + ",".join(case["names"])
        r = check_project(doc)
    elif k == "tag":
        doc = c01.tag_doc(case["tag"])
        label = f"tag|{case['tag']!r}"
        r = check_project(doc)
    elif k == "union":
        from . import c14

        doc = c14.build_doc([case["union"]])
        label = "union|" + c14.describe(case["union"])
        r = check_project(doc)
    elif k == "oppack":
        doc = ops.build_doc(case["cases"])[0]
        label = "ops|" + ";".join(ops.describe(c) for c in case["cases"])
        r = check_project(doc)
    else:
        raise HarnessError("unknown kind")
    if r is None:
        return {"findings": [], "outcome": "rejected", "nontrivial": None}
    found, nfiles, nimports, nrt = r
    seen = set()
    fs = []
    for sig, msg in found:
        if sig not in seen:
            seen.add(sig)
            fs.append({"sig": sig, "key": label[:300], "msg": f"{msg} in {label[:300]}"})
    return {"findings": fs, "nontrivial": label, "evals": 1, "outcome": f"{k}:" + ("finding" if fs else "ok"),
            "sample": {"case": label[:200], "files_scanned": nfiles, "import_statements": nimports, "runtime_files_compared": nrt}}
