"""C14 - union values are decoded as the right variant, never lossily."""
from __future__ import annotations

import itertools
import json
import os
import re

from .. import sandbox
from ..kernel import HarnessError
from .c04 import json_equiv

PID = "C14"
LEVEL = "exploration"
RULE = ("every ORDERED selection of 2..3 (thorough 4) variants from a 9-variant menu (objects with overlapping / subset-related / all-optional fields, string, "
        "integer, array, map) x {no discriminator, discriminator with mapping, discriminator without mapping (object-only unions)} x nullable? x position "
        "{alias, field, list item} x EVERY conforming payload of every variant (+ unmapped discriminator value, mapped variant with a missing required "
        "field); decoded and re-encoded by the package's own converter in the runtime-only interpreter. non-trivial = distinct (union, position, payload)")
ASSUMPTIONS = [
    "re-encoding must keep every key and value of the payload; extra keys are tolerated only when null / empty",
    "with a discriminator the decoded class is identified by its class name",
]
BOUND = {"quick": "576 plain unions of <=3 variants over the 9-variant menu + 60 over composed / formatted-string variants + 54 over variants with optional container properties + ~300 discriminated unions (modes incl. bare-name and enum-wider-than-mapping, nullable, 9 property spellings) + 12 reversed-pair holders, 5 positions (alias, field, inline list item, named array schema as a field and decoded directly), <=2 payloads per variant", "thorough": "+ 4-variant unions"}
CHUNK = 1
PACK = 8

# name -> (schema, payloads)
VARIANTS = {
    "VA": ({"type": "object", "required": ["a"], "properties": {"a": {"type": "string"}}}, [{"a": "x"}]),
    "VAB": ({"type": "object", "required": ["a", "b"], "properties": {"a": {"type": "string"}, "b": {"type": "integer"}}}, [{"a": "x", "b": 1}]),
    "VB": ({"type": "object", "required": ["b"], "properties": {"b": {"type": "integer"}}}, [{"b": 2}]),
    "VOpt": ({"type": "object", "properties": {"c": {"type": "boolean"}}}, [{}, {"c": True}]),
    "VAC": ({"type": "object", "required": ["a"], "properties": {"a": {"type": "string"}, "c": {"type": "boolean"}}}, [{"a": "y"}, {"a": "y", "c": False}]),
    "str": ({"type": "string"}, ["s"]),
    "int": ({"type": "integer"}, [5]),
    "arr": ({"type": "array", "items": {"type": "string"}}, [["p", "q"], []]),
    "map": ({"type": "object", "additionalProperties": {"type": "integer"}}, [{"k": 1}, {}]),
    # variants COMPOSED with allOf whose requirements sit in requirement-only members (next to sibling properties / before the member that brings the property)
    "VTiger": ({"allOf": [{"$ref": "#/components/schemas/AnimalBase"}, {"required": ["stripes"]}], "properties": {"stripes": {"type": "integer"}}}, [{"name": "t", "stripes": 3}]),
    "VBear": ({"allOf": [{"$ref": "#/components/schemas/AnimalBase"}, {"required": ["claws"]}, {"$ref": "#/components/schemas/ClawTraits"}]}, [{"name": "b", "claws": 4}]),
    # formatted strings that are told apart only because the stricter format rejects the other's values
    "date": ({"type": "string", "format": "date"}, ["2024-03-01"]),
    "datetime": ({"type": "string", "format": "date-time"}, ["2024-03-01T10:30:00+00:00"]),
    "tsstr": ({"type": "string"}, ["2024-03-01T10:30:00+00:00", "s"]),
    # every required key is nullable: the variant is still told apart by the PRESENCE of the key
    "VNullReq": ({"type": "object", "required": ["assignee"], "properties": {"assignee": {"type": "string", "nullable": True}, "eta": {"type": "string"}}},
                 [{"assignee": None}, {"assignee": "x", "eta": "e"}]),
    # optional properties that are containers (emitted with default_factory): leaving them out is as conforming as leaving out a scalar
    "VArrOpt": ({"type": "object", "required": ["t"], "properties": {"t": {"type": "string"}, "tags": {"type": "array", "items": {"type": "string"}}}},
                [{"t": "x"}, {"t": "x", "tags": ["p", "q"]}]),
    "VMapOpt": ({"type": "object", "required": ["m"], "properties": {"m": {"type": "integer"}, "labels": {"type": "object", "additionalProperties": {"type": "string"}},
                                                                      "items": {"type": "array", "items": {"type": "integer"}}}},
                [{"m": 1}, {"m": 1, "labels": {"k": "v"}}, {"m": 2, "items": [1, 2]}]),
}
OBJECTS = ["VA", "VAB", "VB", "VOpt", "VAC", "VTiger", "VBear", "VNullReq", "VArrOpt", "VMapOpt"]
BASE_MENU = ["VA", "VAB", "VB", "VOpt", "VAC", "str", "int", "arr", "map"]   # the full permutation space runs over these
EXTRA_SCHEMAS = {"AnimalBase": {"type": "object", "properties": {"name": {"type": "string"}}},
                 "ClawTraits": {"type": "object", "properties": {"claws": {"type": "integer"}}}}


def R(n):
    return {"$ref": "#/components/schemas/" + n}


NUMW = ["Zero", "One", "Two", "Three", "Four", "Five", "Six", "Seven"]


def twin(v, i=0):
    """name of the discriminated twin of object variant v in union i: every discriminated union gets its OWN variant schemas
    (the generator rewrites the discriminator property of a variant per union, so sharing variants would couple the cases);
    CamelCase letters only, so that class-name derivation leaves it alone"""
    return "Disc" + NUMW[i % 8] + v[1:].capitalize()


def unions(tier):
    out = []
    names = list(BASE_MENU)
    for k in (2, 3) if tier == "quick" else (2, 3, 4):
        for sel in itertools.permutations(names, k):
            out.append({"variants": list(sel), "disc": "none", "nullable": False, "kw": "oneOf"})
    DOBJ = ["VA", "VAB", "VB", "VOpt", "VAC"]   # discriminated twins are built from the plain object variants
    for sel in itertools.permutations(DOBJ, 2):
        out.append({"variants": list(sel), "disc": "none", "nullable": True, "kw": "oneOf"})
        out.append({"variants": list(sel), "disc": "none", "nullable": False, "kw": "anyOf"})
    for k in (2, 3):
        for sel in itertools.permutations(DOBJ, k):
            for disc in ("mapping", "mapping2", "implicit"):
                out.append({"variants": list(sel), "disc": disc, "nullable": False, "kw": "oneOf"})
            if k == 2:
                # nullable discriminated unions (nullable: true next to the discriminator)
                out.append({"variants": list(sel), "disc": "mapping", "nullable": True, "kw": "oneOf"})
                out.append({"variants": list(sel), "disc": "mapping", "nullable": True, "kw": "anyOf"})
    # discriminator property names as real documents spell them (JSON-LD / OData / acronym runs / separators / a Python keyword)
    for prop in DISC_PROPS:
        for sel in (["VA", "VB"], ["VAB", "VOpt"], ["VAC", "VB"]):
            for disc in ("mapping", "implicit"):
                out.append({"variants": list(sel), "disc": disc, "nullable": False, "kw": "oneOf", "prop": prop})
    # (appended last: the packs of the unions above stay as they are, and with them the recorded witness keys)
    for group in (["VTiger", "VBear", "VB"], ["date", "datetime", "tsstr"], ["date", "datetime", "int"], ["VNullReq", "VB", "VAC"]):
        for k in (2, 3):
            for sel in itertools.permutations(group, k):
                out.append({"variants": list(sel), "disc": "none", "nullable": False, "kw": "oneOf"})
                if k == 2:
                    out.append({"variants": list(sel), "disc": "none", "nullable": False, "kw": "anyOf"})
    # one object holding the SAME variants in both orders (first: oneOf[X, Y], second: oneOf[Y, X]): each property follows its own order
    for sel in itertools.permutations(["VA", "VAB", "VAC", "VB"], 2):
        out.append({"variants": list(sel), "disc": "none", "nullable": False, "kw": "oneOf", "rev": True})
    for sel in (["VA", "VB"], ["VB", "VA"], ["VAB", "VOpt"], ["VOpt", "VAB"], ["VAC", "VB", "VA"]):
        for disc in ("mapping-bare", "mapping-enum"):
            out.append({"variants": list(sel), "disc": disc, "nullable": False, "kw": "oneOf"})
    for group in (["VArrOpt", "VMapOpt", "VB"], ["VArrOpt", "VOpt", "VA"], ["VMapOpt", "VAB", "VOpt"]):
        for k in (2, 3):
            for sel in itertools.permutations(group, k):
                out.append({"variants": list(sel), "disc": "none", "nullable": False, "kw": "oneOf"})
                if k == 2:
                    out.append({"variants": list(sel), "disc": "none", "nullable": False, "kw": "anyOf"})
    return out


DISC_PROPS = ["type", "@type", "$type", "@odata.type", "objectID", "pet_type", "pet-type", "petType", "class"]


def cases(tier, seed):
    us = unions(tier)
    return [{"unions": us[i:i + PACK]} for i in range(0, len(us), PACK)]


def describe(u):
    return (f"{u['kw']}[{','.join(u['variants'])}]" + (f" disc={u['disc']}" if u["disc"] != "none" else "") + (" nullable" if u["nullable"] else "")
            + (f" prop={u['prop']}" if u.get("prop") else "") + (f" name={u['uname']}" if u.get("uname") else "") + (" +reversed" if u.get("rev") else ""))


def build_doc(us):
    schemas = json.loads(json.dumps(EXTRA_SCHEMAS))
    for n, (sch, _) in VARIANTS.items():
        if n in OBJECTS:
            schemas[n] = sch
    for i, u in enumerate(us):
        members = []
        for v in u["variants"]:
            if v in OBJECTS and u["disc"] != "none":
                # discriminated twins carry a required `kind`
                d = json.loads(json.dumps(VARIANTS[v][0]))
                d["properties"][u.get("prop", "kind")] = {"type": "string"}
                if u["disc"] == "mapping-enum":
                    # the variant itself lists a second value that the mapping does not know
                    d["properties"][u.get("prop", "kind")]["enum"] = [v.lower(), v.lower() + "-legacy"]
                d["required"] = sorted(set(d.get("required", [])) | {u.get("prop", "kind")})
                schemas[twin(v, i)] = d
            if v in OBJECTS:
                members.append(R(v if u["disc"] == "none" else twin(v, i)))
            else:
                members.append(VARIANTS[v][0])
        s = {u["kw"]: members}
        if u["nullable"]:
            s["nullable"] = True
        if u["disc"] in ("mapping", "mapping2", "mapping-bare", "mapping-enum"):
            pre = "" if u["disc"] == "mapping-bare" else "#/components/schemas/"   # mapping values may be bare schema names
            s["discriminator"] = {"propertyName": u.get("prop", "kind"), "mapping": {v.lower(): pre + twin(v, i) for v in u["variants"]}}
            if u["disc"] == "mapping2":
                # non-injective mapping: a second discriminator value for the first variant
                s["discriminator"]["mapping"]["alt"] = "#/components/schemas/" + twin(u["variants"][0], i)
        elif u["disc"] == "implicit":
            s["discriminator"] = {"propertyName": u.get("prop", "kind")}
        un = u.get("uname") or f"U{i}"
        schemas[un] = s
        # the union also behind a NAMED array schema (a component of its own), used as a property and decoded directly
        schemas[f"{un}List"] = {"type": "array", "items": R(un)}
        schemas[f"Holder{i}"] = {"type": "object", "properties": {"u": R(un), "us": {"type": "array", "items": R(un)}, "named": R(f"{un}List")}}
        if u.get("rev"):
            schemas[f"{un}R"] = {u["kw"]: list(reversed(members))}
            schemas[f"PairHolder{i}"] = {"type": "object", "required": ["first", "second"], "properties": {"first": R(un), "second": R(f"{un}R")}}
    return {"openapi": "3.0.3", "info": {"title": "U", "version": "1"}, "paths": {}, "components": {"schemas": schemas}}


def payloads(u, i=0):
    """[(label, payload, expectation)] expectation: {"class": name}|{"error": True}|{}"""
    out = []
    for v in u["variants"]:
        for p in VARIANTS[v][1]:
            if u["disc"] == "none":
                out.append((f"{v}:{json.dumps(p)}", p, {}))
            else:
                val = v.lower() if u["disc"] in ("mapping", "mapping2", "mapping-bare", "mapping-enum") else twin(v, i)
                q = dict(p)
                q[u.get("prop", "kind")] = val
                out.append((f"{v}:{json.dumps(p)}+kind", q, {"class": twin(v, i)}))
                if u["disc"] == "mapping-enum":
                    q3 = dict(p)
                    q3[u.get("prop", "kind")] = v.lower() + "-legacy"   # in the variant's enum, absent from the mapping: cannot be dispatched
                    out.append((f"{v}:{json.dumps(p)}+kind=legacy", q3, {"error": True}))
                if u["disc"] == "mapping2" and v == u["variants"][0]:
                    q2 = dict(p)
                    q2[u.get("prop", "kind")] = "alt"
                    out.append((f"{v}:{json.dumps(p)}+kind=alt", q2, {"class": twin(v, i)}))
    if u["nullable"]:
        out.append(("null", None, {}))
    if u["disc"] != "none":
        out.append(("unmapped", {u.get("prop", "kind"): "nope", "a": "x", "b": 1}, {"error": True}))
        for v in u["variants"]:
            req = VARIANTS[v][0].get("required", [])
            if req:
                val = v.lower() if u["disc"] in ("mapping", "mapping2", "mapping-bare", "mapping-enum") else twin(v, i)
                # payload of a mapped variant that lacks its required fields but would fit another variant
                other = {"c": True, "b": 2} if "a" in req else {"a": "x", "c": True}
                q = dict(other)
                q[u.get("prop", "kind")] = val
                for r in req:
                    q.pop(r, None)
                out.append((f"invalid-{v}", q, {"error": True}))
    return out


def run_pack(us, stats):
    stats["generations"] = stats.get("generations", 0) + 1
    doc = build_doc(us)
    with sandbox.scratch() as d:
        root = os.path.join(d, "proj")
        files, err = sandbox.generate(doc, root)
        if err is not None:
            if len(us) == 1:
                return [{"status": "rejected"}]
            mid = len(us) // 2
            return run_pack(us[:mid], stats) + run_pack(us[mid:], stats)
        jobs = []
        for i, u in enumerate(us):
            ps = payloads(u, i)
            jobs.append({"id": [i, "alias"], "class": f"U{i}", "docs": [p for _, p, _ in ps]})
            jobs.append({"id": [i, "field"], "class": f"Holder{i}", "docs": [{"u": p} for _, p, _ in ps]})
            if u.get("rev"):
                jobs.append({"id": [i, "pair"], "class": f"PairHolder{i}", "docs": [{"first": p, "second": p} for _, p, _ in ps]})
            jobs.append({"id": [i, "item"], "class": f"Holder{i}", "docs": [{"us": [p]} for _, p, _ in ps] + [{"us": [p for _, p, e in ps if not e.get("error")]}]})
            jobs.append({"id": [i, "named-list"], "class": f"Holder{i}", "docs": [{"named": [p]} for _, p, _ in ps]})
            jobs.append({"id": [i, "list-alias"], "class": f"U{i}List", "docs": [[p] for _, p, _ in ps]})
        res = sandbox.zygote_job({"roots": [root], "allow": ["cli"], "driver": "roundtrip",
                                  "args": {"package": "cli", "core": "cli.core", "jobs": jobs}}, timeout_s=100)
    if "_crash" in res:
        raise HarnessError("roundtrip driver crashed: " + res["_crash"] + res.get("_tb", ""))
    if res["errors"]:
        if len(us) == 1:
            return [{"status": "unimportable", "error": res["errors"][0]["raw"]}]
        mid = len(us) // 2
        return run_pack(us[:mid], stats) + run_pack(us[mid:], stats)
    out = [{"status": "ok", "recs": {}, "index": i} for i in range(len(us))]
    for r in res["results"]:
        i, pos = r["id"]
        out[i]["recs"][pos] = r
    return out


def shape(u):
    """signature context: which kinds of variants the union mixes"""
    objs = [v for v in u["variants"] if v in OBJECTS]
    prims = [v for v in u["variants"] if v not in OBJECTS]
    return f"{len(objs)}obj+{len(prims)}other" + ("+disc-" + u["disc"] if u["disc"] != "none" else "") + ("+nullable" if u["nullable"] else "")


def run_case(case):
    us = case["unions"]
    stats = {}
    res = run_pack(us, stats)
    found = []
    seen = set()
    nontriv = []
    outcomes = set()
    n = 0
    for u, r in zip(us, res):
        outcomes.add(r["status"])
        if r["status"] != "ok":
            continue
        ps = payloads(u, r["index"])
        for pos in ("alias", "field", "item", "named-list", "list-alias") + (("pair",) if u.get("rev") else ()):
            rec = r["recs"].get(pos)
            if rec is None or rec.get("missing"):
                sig = f"C14|{pos}|union not exported by the models package"
                key = describe(u) + "|" + pos
                if (sig, key) not in seen:
                    seen.add((sig, key))
                    found.append({"sig": sig, "key": key, "msg": key})
                continue
            for (label, p, exp), d in zip(ps, rec["docs"]):
                n += 1
                key = f"{describe(u)}|{pos}|{label}"
                nontriv.append(key)

                def add(disc, detail, key=key, pos=pos):
                    sig = f"C14|{pos}|{disc}"
                    if (sig, key) not in seen:
                        seen.add((sig, key))
                        found.append({"sig": sig, "key": key, "msg": f"{detail} | {key}"})

                err = d.get("structure_error") or d.get("unstructure_error")
                if exp.get("error"):
                    if not err:
                        back = d.get("back")
                        add(f"{'unmapped discriminator value' if (label == 'unmapped' or label.endswith('=legacy')) else 'invalid payload of the mapped variant'} accepted instead of reported",
                            f"decoded to {json.dumps(back)[:120]}")
                    elif err["type"] not in ("ValueError", "TypeError", "KeyError") and "Error" not in err["type"]:
                        add(f"reported with {err['type']}", err["msg"][:120])
                    continue
                if err:
                    m = re.sub(r"'[^']*'", "'*'", err["msg"].split("\n")[0])
                    m = re.sub(r"\d+", "N", m)
                    m = re.sub(r"Disc[A-Za-z]+", "<Variant>", m)
                    add(f"conforming payload rejected [{shape(u)}]: {err['type']}: {m[:70]}", err["msg"][:200])
                    continue
                back = d["back"]
                wrap = {"alias": lambda x: x, "field": lambda x: {"u": x}, "item": lambda x: {"us": [x]}, "named-list": lambda x: {"named": [x]}, "list-alias": lambda x: [x], "pair": lambda x: {"first": x, "second": x}}[pos]
                want = wrap(p)
                if pos == "pair":
                    # each property is judged on its own (it follows its own variant order)
                    for side in ("first", "second"):
                        if not keeps((back or {}).get(side), p):
                            add(f"payload keys/values lost after decode->encode [{shape(u)}]",
                                f"{side}: {json.dumps(p)[:100]} came back as {json.dumps((back or {}).get(side))[:120]}", key=f"{key}|{side}")
                    continue
                # keys of the payload must survive
                if not keeps(back, want):
                    add(f"payload keys/values lost after decode->encode [{shape(u)}]", f"{json.dumps(want)[:120]} came back as {json.dumps(back)[:160]}")
                elif exp.get("class"):
                    tn = d.get("type") if pos == "alias" else None
                    if tn is not None and tn != exp["class"]:
                        add("discriminator maps to a different class than decoded", f"{tn} instead of {exp['class']}")
    return {"findings": found, "evals": n, "nontrivial": nontriv, "nontrivial_multi": True,
            "outcome": "+".join(sorted(outcomes)) + (":finding" if found else ""),
            "sample": {"union": describe(us[0]), "payloads": [l for l, _, _ in payloads(us[0])][:5]}}


def keeps(back, want):
    """every key and value of `want` is in `back`; extra keys in back only null / empty"""
    empty = (None, [], {})
    if isinstance(want, dict):
        if not isinstance(back, dict):
            return False
        for k, v in want.items():
            if k not in back:
                if v in empty:
                    continue
                return False
            if not keeps(back[k], v):
                return False
        for k, v in back.items():
            if k not in want and v not in empty:
                return False
        return True
    if isinstance(want, list):
        return isinstance(back, list) and len(back) == len(want) and all(keeps(b, w) for b, w in zip(back, want))
    if isinstance(want, bool) != isinstance(back, bool):
        return False
    return back == want
