"""C05 - response fidelity: declared success bodies come back as typed values."""
from __future__ import annotations

import base64
import datetime
import itertools
import json
import re

from .. import driven
from ..kernel import HarnessError
from ..space import ops
from .c04 import json_equiv

PID = "C05"
LEVEL = "exploration"
RULE = ("operations: every single declared 2xx status {200,201,202,204,206} x every content kind (18 + event-stream + ndjson), default-only x every "
        "content kind, ordered pairs of 2xx declarations (both declaration orders) x 6x2 content kinds, 2xx + default-with-content; for every declared "
        "2xx status and EVERY conforming body of the content kind's instance menu the server answers with that status/body and the call must return "
        "a value of the annotated type whose re-serialisation equals the body (a content-less `default` is not treated as a declared 2xx) (None for no content; text/bytes as sent; streams: the items/bytes sent, "
        "for every chunking of the menu). non-trivial = distinct (operation, answered status, body, chunking) calls")
ASSUMPTIONS = [
    "re-serialisation is done by the harness (wire keys from Meta, enum values, ISO datetimes) not by the package's converter; an absent optional key may "
    "come back as null/[]/{}; date-times are compared as instants",
    "for byte streams only the concatenation is compared (the bundled transport reads the body before the generated method iterates it)",
]
BOUND = {"quick": "~215 operations (27 content kinds) inline and through component refs x <=3 bodies (streams: 4 SSE framings x <=3 chunkings)", "thorough": "same + every content kind x every content kind for the status pairs (200,201), (201,202), (206,200)"}
CHUNK = 1
PACK = 8

SINGLE_STATUSES = ["200", "201", "202", "204", "206"]
PAIR_A = ["json-model", "json-array-model", "json-string", "text-plain", "none", "union2"]
ALL_KINDS = list(ops.RESP_KINDS) + list(ops.STREAM_KINDS)


def op_cases(tier):
    out = []
    for st in SINGLE_STATUSES:
        for k in ALL_KINDS:
            if st == "204" and k != "none":
                continue
            out.append(ops.op("get", "/r", [], None, {st: k}))
    for k in ALL_KINDS:
        out.append(ops.op("get", "/r", [], None, {"default": k}))
    for a, b in [("200", "201"), ("201", "200"), ("200", "204"), ("204", "200"), ("201", "202"), ("202", "201"), ("206", "200")]:
        full = tier != "quick" and (a, b) in (("200", "201"), ("201", "202"), ("206", "200"))   # thorough: every kind x every kind
        kinds_a = list(ops.RESP_KINDS) if full else PAIR_A
        for ka in kinds_a:
            kbs = list(ops.RESP_KINDS) if full else ["json-other", "none"]
            for kb in kbs:
                ra = "none" if a == "204" else ka
                rb = "none" if b == "204" else kb
                out.append(ops.op("get", "/r", [], None, {a: ra, b: rb}))
    out.append(ops.op("put", "/r", [], None, {"200": "json-inline-typeless-a", "201": "json-inline-typeless-b"}))
    out.append(ops.op("put", "/r", [], None, {"201": "json-inline-typeless-b", "200": "json-inline-typeless-a"}))
    out.append(ops.op("put", "/r", [], None, {"200": "none", "201": "json-model"}))
    out.append(ops.op("get", "/r", [], None, {"200": "json-array-inline-a", "201": "json-array-inline-b"}))
    out.append(ops.op("get", "/r", [], None, {"200": "json-array-inline-b", "201": "json-array-inline-a"}))
    out.append(ops.op("get", "/r", [], None, {"200": "json-model", "default": "json-other"}))
    out.append(ops.op("get", "/r", [], None, {"201": "json-array-model", "default": "json-other"}))
    out.append(ops.op("post", "/r", [], {"kind": "json-ref", "required": True}, {"200": "json-model", "404": "json-other"}))
    seen = set()
    uniq = []
    for c in out:
        k = ops.describe(c)
        if k not in seen:
            seen.add(k)
            uniq.append(c)
    return uniq


def cases(tier, seed):
    oc = op_cases(tier)
    solo = [ops.op("get", "/r", [], None, {"200": "union-model-or-array"})]   # alone: the first thing the converter sees in its process
    return [{"ops": solo, "refs": False}] + [{"ops": oc[i:i + PACK], "refs": r} for r in (False, True) for i in range(0, len(oc), PACK)]


# ----------------------------------------------------------------------------------------------
def stream_bodies(kind):
    """[(label, ctype, chunks, expected items)]"""
    items1 = [ops.ITEM_BODIES[0]]
    items3 = [ops.ITEM_BODIES[0], ops.ITEM_BODIES[1], {"id": 3}]
    out = []
    for items in (items1, items3):
        framings = [("std", None)]
        if kind == "event-stream":
            framings = [("std", (b"data: ", b"\n\n")), ("nospace", (b"data:", b"\n\n")), ("crlf", (b"data: ", b"\r\n\r\n")),
                        ("comment+id", (b": keep-alive\nid: 1\ndata: ", b"\n\n")),
                        ("no-final-blank", (b"data: ", b"\n\n"))]   # the server closes right after the last field line
        for fname, fr in framings:
            if kind == "event-stream":
                data = b"".join(fr[0] + json.dumps(x).encode() + fr[1] for x in items)
                if fname == "no-final-blank":
                    data = data[:-1]
                ctype = "text/event-stream"
            else:
                data = b"".join(json.dumps(x).encode() + b"\n" for x in items)
                ctype = "application/x-ndjson"
            n = len(data)
            splits = (("whole", []), ("2-chunks", [n // 2]), ("3-chunks", [n // 3, 2 * n // 3])) if fname == "std" else (("whole", []), ("2-chunks", [n // 2]))
            for label, cuts in splits:
                chunks = []
                a = 0
                for c in cuts:
                    chunks.append(data[a:c])
                    a = c
                chunks.append(data[a:])
                out.append((f"{len(items)}-items/{fname}/{label}", ctype, chunks, items))
    return out


def call_plan(case):
    """[(label, status, kind, response spec, expectation)] for every declared 2xx (and default) response"""
    plan = []
    declared2xx = [s for s in case["responses"] if s.isdigit() and 200 <= int(s) <= 299]
    for st, kind in case["responses"].items():
        if st == "default":
            status = 200 if not declared2xx else None
            if status is None or kind == "none":
                continue  # a bare `default` without content is not a declared 2xx response: nothing is demanded
            role = "default-only"
        elif st.isdigit() and 200 <= int(st) <= 299:
            status = int(st)
            role = "only-2xx" if len(declared2xx) == 1 else ("first-declared-2xx" if declared2xx[0] == st else "later-declared-2xx")
        else:
            continue
        if kind in ops.STREAM_KINDS:
            for label, ctype, chunks, items in stream_bodies(kind):
                plan.append((f"{st}|{label}", role, kind, {"status": status, "ctype": ctype, "chunks_b64": [base64.b64encode(c).decode() for c in chunks]},
                             {"items": items}))
        else:
            for bi, (ctype, body, expected) in enumerate(ops.RESP_KINDS[kind][1]):
                spec = {"status": status, "ctype": ctype, "body_b64": base64.b64encode(body).decode()}
                if kind in ("octet", "image"):
                    plan.append((f"{st}|body{bi}", role, kind, dict(spec, chunks_b64=[base64.b64encode(body[:2]).decode(), base64.b64encode(body[2:]).decode()]),
                                 {"bytes": expected["$bytes"]}))
                plan.append((f"{st}|body{bi}", role, kind, spec, {"bytes": expected["$bytes"]} if isinstance(expected, dict) and "$bytes" in expected else {"value": expected}))
    return plan


def make_calls(case):
    kwargs = {"body": ops.ITEM_BODIES[0]} if case.get("body") else {}
    return [{"kwargs": kwargs, "response": spec} for _, _, _, spec, _ in call_plan(case)]


ISO = re.compile(r"^\d{4}-\d{2}-\d{2}T\d{2}:\d{2}:\d{2}")


def norm(v):
    if isinstance(v, dict):
        if "$iso" in v and "$type" in v:
            return norm(v["$iso"])
        return {k: norm(x) for k, x in v.items()}
    if isinstance(v, list):
        return [norm(x) for x in v]
    if isinstance(v, str) and ISO.match(v):
        try:
            d = datetime.datetime.fromisoformat(v.replace("Z", "+00:00"))
            if d.tzinfo is not None:
                return "dt:" + d.astimezone(datetime.timezone.utc).isoformat()
        except ValueError:
            pass
    return v


def exc_disc(e):
    m = re.sub(r"'[^']*'", "'*'", e["msg"])
    m = re.sub(r"\d+", "N", m)
    return f"raised {e['type']}: {m[:90]}"


def run_case(case):
    cs = case["ops"]
    refs = bool(case.get("refs"))
    res = driven.drive_pack(cs, make_calls, "bundled", refs=refs)
    found = []
    seen = set()
    nontriv = []
    outcomes = set()
    ncalls = 0
    for c, r in zip(cs, res):
        if r["status"] != "ok":
            outcomes.add(r["status"])
            continue
        outcomes.add("driven")
        plan = call_plan(c)
        recs = {rec["id"][1]: rec for rec in r["records"]}
        for j, (label, role, kind, spec, exp) in enumerate(plan):
            rec = recs.get(j)
            if rec is None:
                raise HarnessError("missing record")
            ncalls += 1
            key = f"{ops.describe(c)}|{label}" + ("|via-component-refs" if refs else "")
            nontriv.append(key)

            def add(disc, detail, role=role, kind=kind, key=key):
                sig = f"C05|{role}|{kind}|{disc}"
                if (sig, key) not in seen:
                    seen.add((sig, key))
                    found.append({"sig": sig, "key": key, "msg": f"{detail} | {key}"})

            if rec.get("lookup_error"):
                add("method not found", rec["lookup_error"])
                continue
            if rec.get("kind") == "raise":
                add(exc_disc(rec["exc"]), rec["exc"]["msg"][:200])
                continue
            if "items" in exp:
                if rec["kind"] != "items":
                    add("streaming response is not returned as an async iterator", f"kind={rec['kind']}")
                    continue
                got = norm(rec["value"])
                want = norm(exp["items"])
                if len(got) != len(want) or not all(json_equiv(a, b) for a, b in zip(got, want)):
                    add("yielded items differ from the events/records sent", f"got {json.dumps(got)[:200]} want {json.dumps(want)[:200]}")
                continue
            if "bytes" in exp:
                want = base64.b64decode(exp["bytes"])
                if rec["kind"] == "items":
                    vals = rec["value"]
                    if not all(isinstance(v, dict) and "$bytes" in v for v in vals):
                        add("byte stream yields non-bytes items", f"{rec['value_type']}")
                        continue
                    got = b"".join(base64.b64decode(v["$bytes"]) for v in vals)
                else:
                    v = rec["value"]
                    if not (isinstance(v, dict) and "$bytes" in v):
                        add(f"binary response returned as {rec.get('value_type')}", json.dumps(v)[:100])
                        continue
                    got = base64.b64decode(v["$bytes"])
                if got != want:
                    add("bytes differ from the bytes sent", f"{got!r} != {want!r}")
                continue
            want = norm(exp["value"])
            if rec["kind"] != "return":
                add("non-streaming response returned as an async iterator", f"items={json.dumps(rec.get('value'))[:100]}")
                continue
            got = norm(rec["value"])
            if kind == "none" or exp["value"] is None and kind == "none":
                if rec["value"] is not None:
                    add("response without content does not return None", json.dumps(got)[:100])
                continue
            if not json_equiv(got, want):
                add("returned value does not re-serialise to the body", f"got {json.dumps(got)[:200]} want {json.dumps(want)[:200]} (type {rec.get('value_type')})")
            elif rec.get("conforms") is False:
                add(f"returned value is not an instance of the annotated return type", f"{rec.get('value_type')} vs {rec.get('return_annotation')}")
    return {"findings": found, "evals": ncalls, "nontrivial": nontriv, "nontrivial_multi": True,
            "outcome": "+".join(sorted(outcomes)) + (":finding" if found else ""),
            "sample": {"operation": ops.describe(cs[0]), "plan": [p[0] for p in call_plan(cs[0])][:4]}}
