"""Framework self-test run by setup.sh: imports, zygote start, zygote == fresh interpreter on one package."""
import json
import os
import shutil
import sys


def main():
    from mc import kernel, sandbox

    kernel.worker_scratch()
    try:
        import pyopenapi_gen  # noqa

        src = os.path.dirname(os.path.dirname(os.path.abspath(pyopenapi_gen.__file__)))
        assert os.path.samefile(src, kernel.SRC), f"pyopenapi_gen imported from {src}, expected {kernel.SRC}"
        doc = sandbox.base_doc({"Pet": {"type": "object", "properties": {"id": {"type": "integer"}}}},
                               {"/p": {"get": {"operationId": "getP", "responses": {"200": {"description": "ok", "content": {
                                   "application/json": {"schema": {"$ref": "#/components/schemas/Pet"}}}}}}}})
        with sandbox.scratch() as d:
            root = os.path.join(d, "proj")
            files, err = sandbox.generate(doc, root)
            assert err is None, err
            job = {"roots": [root], "allow": ["cli"], "driver": "import_all", "args": {"packages": ["cli"], "root": root}}
            a = sandbox.zygote_job(job)
            b = sandbox.fresh_interpreter_job(job)
            assert a == b, f"zygote and fresh interpreter disagree:\n{json.dumps(a)[:800]}\n{json.dumps(b)[:800]}"
            assert a.get("generator_importable") is False, a
            assert not a.get("failures"), a
        print("selftest ok: zygote verdict == fresh-interpreter verdict;", len(a.get("modules", [])), "modules imported")
    finally:
        sandbox.shutdown_zygote()
        if kernel._WORK["scratch"]:
            shutil.rmtree(kernel._WORK["scratch"], ignore_errors=True)


if __name__ == "__main__":
    main()
    sys.exit(0)
