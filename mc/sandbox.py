"""Scratch project trees, generator invocation, tree snapshots and the runtime-only 'zygote' interpreter."""
from __future__ import annotations

import contextlib
import hashlib
import io
import json
import os
import shutil
import subprocess
import sys
import tempfile

from . import kernel

# ----------------------------------------------------------------------------------------------
# scratch trees
# ----------------------------------------------------------------------------------------------


@contextlib.contextmanager
def scratch(prefix="case-"):
    base = kernel.worker_scratch()
    d = tempfile.mkdtemp(prefix=prefix, dir=base)
    try:
        yield d
    finally:
        shutil.rmtree(d, ignore_errors=True)


def write_spec(doc, path, fmt="json"):
    """fmt: json | yaml (block) | yaml-flow | text (doc is already text)"""
    if fmt == "json":
        text = json.dumps(doc, indent=1)
    elif fmt == "json-tabs-yaml-name":
        text = json.dumps(doc, indent="\t")   # what `jq --tab` writes; the file is called *.yaml by the caller
    elif fmt == "text":
        text = doc
    else:
        import yaml

        text = yaml.safe_dump(doc, sort_keys=False, default_flow_style=(fmt == "yaml-flow"), allow_unicode=True)
    with open(path, "w", encoding="utf-8") as f:
        f.write(text)
    return path


class Quiet:
    """Silence the generator's prints / logging / warnings for the duration of a call."""

    def __enter__(self):
        import logging
        import warnings

        self._out, self._err = sys.stdout, sys.stderr
        sys.stdout, sys.stderr = io.StringIO(), io.StringIO()
        self._w = warnings.catch_warnings()
        self._w.__enter__()
        warnings.simplefilter("ignore")
        self._lvl = logging.root.manager.disable
        logging.disable(logging.CRITICAL)
        return self

    def __exit__(self, *a):
        import logging

        sys.stdout, sys.stderr = self._out, self._err
        self._w.__exit__(*a)
        logging.disable(self._lvl)
        return False


_BASELINE = {"taken": False, "slots": [], "caches": []}


def _take_baseline():
    """Record every mutable container that lives at module or class level inside pyopenapi_gen (after import, before any use), and every
    functools cache.  These are the places where a generator can carry state from one generation to the next inside a process."""
    import copy
    import functools
    import sys
    import types

    slots, caches = [], []
    seen = set()
    for name, mod in list(sys.modules.items()):
        if not (name == "pyopenapi_gen" or name.startswith("pyopenapi_gen.")) or mod is None:
            continue
        holders = [mod]
        for v in list(vars(mod).values()):
            if isinstance(v, type) and getattr(v, "__module__", "").startswith("pyopenapi_gen"):
                holders.append(v)
        for h in holders:
            if id(h) in seen:
                continue
            seen.add(id(h))
            for attr, val in list(vars(h).items()):
                if attr.startswith("__") and attr.endswith("__"):
                    continue
                if isinstance(val, (dict, list, set)) and not isinstance(val, types.MappingProxyType):
                    try:
                        slots.append((h, attr, val, copy.deepcopy(val)))
                    except Exception:
                        pass
                elif hasattr(val, "cache_clear") and callable(getattr(val, "cache_clear", None)):
                    caches.append(val)
                elif isinstance(val, (staticmethod, classmethod)) and hasattr(getattr(val, "__func__", None), "cache_clear"):
                    caches.append(val.__func__)
    _BASELINE.update({"taken": True, "slots": slots, "caches": caches})


def reset_generator_globals():
    """Put every module-/class-level container of the generator back to what it held right after import and clear its functools caches,
    so that process-global generator state carries history only where a case enumerates it on purpose (reset=False)."""
    import copy

    if not _BASELINE["taken"]:
        try:
            import importlib
            import pkgutil

            import pyopenapi_gen

            for m in pkgutil.walk_packages(pyopenapi_gen.__path__, "pyopenapi_gen."):   # every module, also those imported lazily inside functions
                if ".core_package_template" in m.name or m.name.endswith("__main__"):
                    continue
                try:
                    importlib.import_module(m.name)
                except Exception:
                    pass
        except Exception:
            return
        _take_baseline()
        return
    for h, attr, obj, base in _BASELINE["slots"]:
        try:
            cur = getattr(h, attr, None)
            if cur is not obj:
                # rebound to a new object: bind the original container again
                setattr(h, attr, obj)
            if obj != base:
                if isinstance(obj, dict):
                    obj.clear()
                    obj.update(copy.deepcopy(base))
                elif isinstance(obj, list):
                    obj[:] = copy.deepcopy(base)
                else:
                    obj.clear()
                    obj.update(copy.deepcopy(base))
        except Exception:
            pass
    for c in _BASELINE["caches"]:
        try:
            c.cache_clear()
        except Exception:
            pass


def generate(doc, root, output_package="cli", core_package=None, force=True, naming="operationId",
             fmt="json", spec_name=None, no_postprocess=True, reset=True, around=None, spec_path=None, naming_as_str=False):
    """Run the real generator on `doc` into project root `root`.
    Returns (files | None, exception | None)."""
    from pyopenapi_gen.generator.client_generator import ClientGenerator
    from pyopenapi_gen.ir import NamingStrategy

    if reset:
        reset_generator_globals()
    os.makedirs(root, exist_ok=True)
    spec_dir = os.path.join(os.path.dirname(root.rstrip("/")), "specs-" + os.path.basename(root.rstrip("/")))
    os.makedirs(spec_dir, exist_ok=True)
    ext = "json" if fmt == "json" else "yaml"
    fixed_spec = spec_path is not None
    if fixed_spec:
        # the user's own spec file, edited in place between runs: same path, new content
        os.makedirs(os.path.dirname(spec_path), exist_ok=True)
    else:
        spec_path = os.path.join(spec_dir, spec_name or ("spec." + ext))
    write_spec(doc, spec_path, fmt)
    ns = {s.value: s for s in NamingStrategy}[naming]
    if naming_as_str:
        ns = str(ns.value)   # the programmatic API documents the strategies by their string spellings
    try:
        with Quiet(), (around() if around is not None else contextlib.nullcontext()):
            files = ClientGenerator(verbose=False).generate(
                spec_path=spec_path, project_root=__import__("pathlib").Path(root), output_package=output_package,
                core_package=core_package, force=force, no_postprocess=no_postprocess, naming_strategy=ns)
        return [str(f) for f in files], None
    except kernel.CaseTimeout:
        raise
    except BaseException as e:  # GenerationError, ValueError, RecursionError ... classified by the caller
        if isinstance(e, (KeyboardInterrupt, SystemExit)):
            raise
        return None, e
    finally:
        shutil.rmtree(spec_dir, ignore_errors=True)


def load_ir(doc, naming="operationId"):
    from pyopenapi_gen.core.loader.loader import load_ir_from_spec
    from pyopenapi_gen.ir import NamingStrategy

    reset_generator_globals()
    ns = {s.value: s for s in NamingStrategy}[naming]
    with Quiet():
        return load_ir_from_spec(doc, naming_strategy=ns)


def base_doc(schemas=None, paths=None, title="T"):
    d = {"openapi": "3.0.3", "info": {"title": title, "version": "1.0.0"}, "paths": paths if paths is not None else {}}
    if schemas is not None:
        d["components"] = {"schemas": schemas}
    return d


def py_files(root):
    out = []
    for dp, dn, fn in os.walk(root):
        dn.sort()
        for f in sorted(fn):
            if f.endswith(".py"):
                out.append(os.path.join(dp, f))
    return out


def snapshot(root, with_mtime=True):
    """sorted {relpath: (type, size, sha256, mtime_ns)}"""
    snap = {}
    for dp, dn, fn in os.walk(root):
        dn.sort()
        rel = os.path.relpath(dp, root)
        if rel != ".":
            st = os.lstat(dp)
            snap[rel + "/"] = ("d", 0, "", 0)
        for f in sorted(fn):
            p = os.path.join(dp, f)
            st = os.lstat(p)
            if os.path.islink(p):
                snap[os.path.relpath(p, root)] = ("l", 0, os.readlink(p), 0)
                continue
            with open(p, "rb") as fh:
                h = hashlib.sha256(fh.read()).hexdigest()
            snap[os.path.relpath(p, root)] = ("f", st.st_size, h, st.st_mtime_ns if with_mtime else 0)
    return snap


# ----------------------------------------------------------------------------------------------
# zygote: runtime-only interpreter (httpx + cattrs importable, generator and everything else blocked)
# ----------------------------------------------------------------------------------------------
_ZY = {"proc": None}
ZYGOTE_MAIN = os.path.join(os.path.dirname(os.path.abspath(__file__)), "zygote_main.py")


def _start_zygote():
    env = {k: v for k, v in os.environ.items() if not k.startswith("PYTHON")}
    env["PYTHONHASHSEED"] = "0"
    env["PYTHONDONTWRITEBYTECODE"] = "1"
    p = subprocess.Popen(["/venv/bin/python", "-I", "-X", "utf8", ZYGOTE_MAIN], stdin=subprocess.PIPE, stdout=subprocess.PIPE,
                         env=env, cwd="/")
    line = p.stdout.readline()
    if not line.startswith(b"READY"):
        raise kernel.HarnessError(f"zygote failed to start: {line!r}")
    _ZY["proc"] = p
    return p


def shutdown_zygote():
    p = _ZY.get("proc")
    if p is not None:
        try:
            p.stdin.close()
            p.wait(timeout=5)
        except Exception:
            try:
                p.kill()
            except Exception:
                pass
        _ZY["proc"] = None


def zygote_job(job: dict, timeout_s: int = 60) -> dict:
    """Run one job in a forked child of the runtime-only interpreter.
    job = {"roots": [sys.path entries], "driver": "<name in mc/drivers>", "args": {...}, "timeout": s}
    returns the driver's JSON result, or {"_crash": "..."}"""
    p = _ZY.get("proc")
    if p is None or p.poll() is not None:
        p = _start_zygote()
    job = dict(job)
    job.setdefault("timeout", timeout_s)
    data = json.dumps(job).encode() + b"\n"
    try:
        p.stdin.write(data)
        p.stdin.flush()
        line = p.stdout.readline()
    except (BrokenPipeError, OSError) as e:
        _ZY["proc"] = None
        raise kernel.HarnessError(f"zygote pipe broke: {e}")
    if not line:
        _ZY["proc"] = None
        raise kernel.HarnessError("zygote died")
    return json.loads(line)


def fresh_interpreter_job(job: dict, timeout_s: int = 120) -> dict:
    """Same job in a genuinely fresh `python -I` process (used by self-tests to validate the zygote)."""
    env = {k: v for k, v in os.environ.items() if not k.startswith("PYTHON")}
    env["PYTHONHASHSEED"] = "0"
    env["PYTHONDONTWRITEBYTECODE"] = "1"
    r = subprocess.run(["/venv/bin/python", "-I", "-X", "utf8", ZYGOTE_MAIN, "--one-shot"], input=json.dumps(job).encode() + b"\n",
                       stdout=subprocess.PIPE, env=env, cwd="/", timeout=timeout_s)
    lines = [l for l in r.stdout.splitlines() if l.strip()]
    if not lines:
        raise kernel.HarnessError(f"fresh interpreter produced no output rc={r.returncode}")
    return json.loads(lines[-1])
