"""Explorer kernel: exhaustive case enumeration over a process pool, finding triage, evidence, replay.

A *check* is a module in mc.props with

    PID        = "C20"
    LEVEL      = "exploration" | "model_checking" | "fault_enumeration"
    RULE       = "<how cases are enumerated; what makes one non-trivial>"
    ASSUMPTIONS= [...]
    def cases(tier, seed) -> list            (complete, simplest-first; JSON-able case descriptors)
    def run_case(case) -> dict               (executed in a worker; see CaseResult below)
    def finalize(results, tier, seed) -> dict (optional; extra coverage keys, extra findings)

CaseResult (dict):
    findings   : [ {"sig": "<clause|discrepancy>", "msg": "<human text>"} ... ]
    nontrivial : hashable key or None   (distinct non-None keys are counted)
    outcome    : short string  (distinct outcomes are counted, vacuity is visible)
    evals      : int  (number of executions this case stands for; default 1)
    states/transitions/validated : ints (summed) for state-graph explorations
    sample     : JSON-able (optional) written-out form of the case for the evidence file

Nothing here samples: `cases` returns the whole bounded space and the kernel asserts that every case
came back before `exhaustive: true` is written.
"""
from __future__ import annotations

import hashlib
import json
import multiprocessing as mp
import os
import shutil
import signal
import sys
import tempfile
import time
import traceback

VERIF = os.path.dirname(os.path.dirname(os.path.abspath(__file__)))
REPO = os.environ.get("VERIF_REPO", "/repo")
SRC = os.path.join(REPO, "src")
KNOWN = os.path.join(VERIF, "known_findings.json")
SHM = "/dev/shm" if os.path.isdir("/dev/shm") and os.access("/dev/shm", os.W_OK) else None

CASE_TIMEOUT_S = int(os.environ.get("VERIF_CASE_TIMEOUT", "120"))


class HarnessError(Exception):
    """A failure of the verification machinery itself (never reported as VIOLATION)."""


class CaseTimeout(BaseException):
    pass


# ----------------------------------------------------------------------------------------------
# worker side
# ----------------------------------------------------------------------------------------------
_WORK = {"scratch": None, "mod": None}


def _on_alarm(signum, frame):
    raise CaseTimeout()


def worker_scratch() -> str:
    """Per-process scratch directory on tmpfs; TMPDIR points into it so the generator's own temp
    files (diff trees, log droppings) vanish with it."""
    if _WORK["scratch"] is None or not os.path.isdir(_WORK["scratch"]):
        d = tempfile.mkdtemp(prefix="verif-", dir=SHM)
        _WORK["scratch"] = d
        t = os.path.join(d, "tmp")
        os.makedirs(t, exist_ok=True)
        os.environ["TMPDIR"] = t
        tempfile.tempdir = t
    return _WORK["scratch"]


def _worker_init(modname: str):
    import atexit
    import importlib
    import logging
    import warnings

    signal.signal(signal.SIGALRM, _on_alarm)
    worker_scratch()
    logging.disable(logging.CRITICAL)
    warnings.simplefilter("ignore")
    _WORK["mod"] = importlib.import_module(modname)

    def _cleanup():
        from . import sandbox

        sandbox.shutdown_zygote()
        if _WORK["scratch"]:
            shutil.rmtree(_WORK["scratch"], ignore_errors=True)

    atexit.register(_cleanup)
    # multiprocessing children exit through os._exit; use Finalize so cleanup runs anyway
    from multiprocessing.util import Finalize

    Finalize(None, _cleanup, exitpriority=10)


def _clean_tmp():
    d = _WORK.get("scratch")
    if not d:
        return
    t = os.path.join(d, "tmp")
    try:
        for n in os.listdir(t):
            p = os.path.join(t, n)
            if os.path.isdir(p) and not os.path.islink(p):
                shutil.rmtree(p, ignore_errors=True)
            else:
                try:
                    os.unlink(p)
                except OSError:
                    pass
    except OSError:
        pass


def _kill_child():
    pid = _WORK.get("child")
    if pid:
        try:
            os.kill(pid, signal.SIGKILL)
            os.waitpid(pid, 0)
        except OSError:
            pass
        _WORK["child"] = None


def prewarm():
    """Import (never execute) the generator so that forked case processes do not pay for it, and start the
    runtime-only interpreter so that they share it."""
    if _WORK.get("warm"):
        return
    _WORK["warm"] = True
    import importlib
    import pkgutil

    try:
        import pyopenapi_gen

        for m in pkgutil.walk_packages(pyopenapi_gen.__path__, "pyopenapi_gen."):
            if ".core_package_template" in m.name or m.name.endswith("__main__"):
                continue
            try:
                importlib.import_module(m.name)
            except Exception:
                pass
    except Exception:
        pass
    # third-party lazy caches (never the generator's own state): validator meta-schemas, black's compiled modules
    try:
        import openapi_spec_validator

        for v in ("3.0.3", "3.1.0"):
            try:
                openapi_spec_validator.validate({"openapi": v, "info": {"title": "t", "version": "1"}, "paths": {}})
            except Exception:
                pass
    except Exception:
        pass
    try:
        import black

        black.format_str("x = {'a': 1}\n", mode=black.Mode(line_length=120))
    except Exception:
        pass
    try:
        from . import sandbox

        sandbox._start_zygote()
    except Exception:
        pass
    import gc

    gc.collect()
    gc.freeze()  # keep the warmed heap out of the children's collections (fewer copy-on-write faults)


def isolated_call(fn, arg):
    """fn(arg) in a forked child of this process; the result comes back pickled. HarnessError/other exceptions of the
    child are re-raised here as HarnessError."""
    import pickle

    r, w = os.pipe()
    sys.stdout.flush()
    sys.stderr.flush()
    pid = os.fork()
    if pid == 0:
        code = 0
        try:
            os.close(r)
            try:
                res = ("ok", fn(arg))
            except BaseException as e:
                res = ("err", f"{type(e).__name__}: {e}\n{traceback.format_exc()}")
            with os.fdopen(w, "wb") as f:
                pickle.dump(res, f)
        except BaseException:
            code = 3
        finally:
            os._exit(code)
    os.close(w)
    with os.fdopen(r, "rb") as f:
        data = f.read()
    os.waitpid(pid, 0)
    if not data:
        raise HarnessError("isolated call produced no result")
    tag, val = pickle.loads(data)
    if tag == "err":
        raise HarnessError("isolated call failed: " + val)
    return val


def fork_map(fn, items, k):
    """[fn(x) for x in items], every call in its OWN forked process (a copy of the calling process, which must not
    have executed the subject itself), k of them at a time; results in item order.  Each of the k lanes owns a
    runtime-only interpreter (zygote) that its calls share."""
    import pickle

    items = list(items)
    if not items:
        return []
    k = max(1, min(k, len(items)))
    lanes = []
    for j in range(k):
        r, w = os.pipe()
        sys.stdout.flush()
        sys.stderr.flush()
        pid = os.fork()
        if pid == 0:
            code = 0
            try:
                os.close(r)
                from . import sandbox

                sandbox._ZY["proc"] = None  # the parent's interpreter is not shared between lanes
                try:
                    sandbox._start_zygote()
                    out = ("ok", [isolated_call(fn, x) for x in items[j::k]])
                except BaseException as e:
                    out = ("err", f"{type(e).__name__}: {e}\n{traceback.format_exc()}")
                sandbox.shutdown_zygote()
                with os.fdopen(w, "wb") as f:
                    pickle.dump(out, f)
            except BaseException:
                code = 3
            finally:
                os._exit(code)
        os.close(w)
        lanes.append((pid, r))
    res = [None] * len(items)
    err = None
    for j, (pid, r) in enumerate(lanes):
        with os.fdopen(r, "rb") as f:
            data = f.read()
        os.waitpid(pid, 0)
        if not data:
            err = err or "fork_map lane produced no result"
            continue
        tag, val = pickle.loads(data)
        if tag == "err":
            err = err or val
            continue
        res[j::k] = val
    if err:
        raise HarnessError("fork_map: " + err)
    return res


def _run_isolated(mod, case):
    """ISOLATE = True: the case runs in a forked child of this process, and this process itself never runs the
    generator - so every case (and every re-execution of it) starts from the same process state: generator modules
    imported, nothing executed.  Process-global generator state therefore only carries history WITHIN a case,
    where the case enumerates it on purpose."""
    import pickle

    prewarm()
    r, w = os.pipe()
    sys.stdout.flush()
    sys.stderr.flush()
    pid = os.fork()
    if pid == 0:
        code = 0
        try:
            os.close(r)
            try:
                res = mod.run_case(case)
            except HarnessError as e:
                res = {"findings": [], "harness_error": f"{e}\n{traceback.format_exc()}"}
            except CaseTimeout:
                res = {"findings": [{"sig": f"{mod.PID}|watchdog|case did not terminate", "msg": "timeout"}], "outcome": "timeout"}
            except BaseException as e:
                res = {"findings": [], "harness_error": f"{type(e).__name__}: {e}\n{traceback.format_exc()}"}
            with os.fdopen(w, "wb") as f:
                pickle.dump(res, f)
        except BaseException:
            code = 3
        finally:
            os._exit(code)
    os.close(w)
    _WORK["child"] = pid
    try:
        with os.fdopen(r, "rb") as f:
            data = f.read()
        os.waitpid(pid, 0)
    finally:
        _WORK["child"] = None
    if not data:
        raise HarnessError("isolated case process produced no result")
    return pickle.loads(data)


def run_one(mod, case):
    """Execute one case with watchdog; returns CaseResult. Harness exceptions are carried out as
    result['harness_error'] so that the parent can stop with a diagnosis."""
    t0 = time.time()
    budget = case.get("_timeout_s") if isinstance(case, dict) and case.get("_timeout_s") else getattr(mod, "CASE_TIMEOUT_S", CASE_TIMEOUT_S)
    signal.alarm(int(budget) * int(os.environ.get("VERIF_TIMEOUT_SCALE", "1")))
    try:
        res = _run_isolated(mod, case) if getattr(mod, "ISOLATE", False) else mod.run_case(case)
    except CaseTimeout:
        _kill_child()
        res = {"findings": [{"sig": f"{mod.PID}|watchdog|case did not terminate", "msg": "timeout"}],
               "outcome": "timeout"}
    except HarnessError as e:
        res = {"findings": [], "harness_error": f"{e}\n{traceback.format_exc()}"}
    except Exception as e:  # a bug in the check, not in the subject
        res = {"findings": [], "harness_error": f"{type(e).__name__}: {e}\n{traceback.format_exc()}"}
    finally:
        signal.alarm(0)
    res.setdefault("findings", [])
    res.setdefault("outcome", "ok" if not res["findings"] else "finding")
    res["t"] = time.time() - t0
    _clean_tmp()
    return res


def _worker_run(item):
    idx, case = item
    return idx, run_one(_WORK["mod"], case)


# ----------------------------------------------------------------------------------------------
# parent side
# ----------------------------------------------------------------------------------------------
def explore(mod, cases, workers=None, progress=True):
    """Run every case; results returned in case order (independent of timing)."""
    workers = workers or int(os.environ.get("VERIF_WORKERS", str(min(16, os.cpu_count() or 1))))
    n = len(cases)
    results = [None] * n
    if n == 0:
        return results
    if workers <= 1 or n < 4:
        _worker_init(mod.__name__)
        for i, c in enumerate(cases):
            results[i] = run_one(mod, c)
        return results
    ctx = mp.get_context("fork")
    chunk = getattr(mod, "CHUNK", None) or max(1, min(64, n // (workers * 8)))
    t0 = time.time()
    last = t0
    with ctx.Pool(workers, initializer=_worker_init, initargs=(mod.__name__,)) as pool:
        done = 0
        for idx, res in pool.imap_unordered(_worker_run, list(enumerate(cases)), chunksize=chunk):
            results[idx] = res
            done += 1
            if progress and time.time() - last > 15:
                last = time.time()
                print(f"  .. {done}/{n} cases  {last - t0:.0f}s", file=sys.stderr, flush=True)
        pool.close()
        pool.join()
    return results


def sig_hash(sig: str) -> str:
    return hashlib.sha1(sig.encode()).hexdigest()[:12]


def key_hash(key: str) -> str:
    return hashlib.sha1(key.encode()).hexdigest()[:12]


def load_known(pid: str):
    """known[signature] = entry. An entry may carry "witness_set": a committed file (known_sets/*.txt.gz) with the hashed
    keys of every input known to fail with that signature; then only those inputs are covered by the entry and any other
    input failing with the same signature is still reported as a violation."""
    if not os.path.exists(KNOWN):
        return {}, {}
    import gzip

    data = json.load(open(KNOWN))
    known, fixed = {}, {}
    for e in data.get("findings", []):
        if e.get("property") != pid:
            continue
        if e.get("status") == "known":
            e = dict(e)
            ws = e.get("witness_set")
            if ws:
                with gzip.open(os.path.join(VERIF, ws), "rt") as f:
                    e["_keys"] = set(f.read().split())
            known[e["signature"]] = e
        else:
            fixed[e["signature"]] = e
    return known, fixed


def write_json(path, obj):
    os.makedirs(os.path.dirname(path), exist_ok=True)
    tmp = path + ".tmp"
    with open(tmp, "w") as f:
        json.dump(obj, f, indent=1, sort_keys=False, default=str)
        f.write("\n")
    os.replace(tmp, path)


def main_check(mod, tier: str, seed: int, replay: str | None = None) -> int:
    pid = mod.PID
    t0 = time.time()
    if replay:
        return do_replay(mod, replay)
    cases = mod.cases(tier, seed)
    total = len(cases)
    print(f"[{pid}] tier={tier} seed={seed} cases={total} repo={REPO}", flush=True)
    if getattr(mod, "USES_GENERATOR", True):
        try:
            from . import sandbox

            sandbox.reset_generator_globals()  # take the baseline of the generator's process-global state once, before the pool forks
        except Exception:
            pass
    results = explore(mod, cases)
    # A watchdog expiry depends on machine load, not only on the subject: every case that hit it is run once more, alone (the pool is
    # idle now), with four times the budget. Only a case that still does not terminate is reported; otherwise its completed result counts.
    slow = [i for i, r in enumerate(results) if r is not None and r.get("outcome") == "timeout"]
    if slow:
        os.environ["VERIF_TIMEOUT_SCALE"] = "4"
        try:
            for i in slow:
                _worker_init(mod.__name__)
                results[i] = run_one(mod, cases[i])
        finally:
            os.environ.pop("VERIF_TIMEOUT_SCALE", None)
        print(f"[{pid}] {len(slow)} case(s) hit the watchdog and were re-run alone with 4x the budget; "
              f"{sum(1 for i in slow if results[i].get('outcome') == 'timeout')} still did not terminate", flush=True)
    missing = [i for i, r in enumerate(results) if r is None]
    if missing:
        print(f"HARNESS-ERROR property={pid} {len(missing)} cases did not return", flush=True)
        return 2
    herr = [(i, r["harness_error"]) for i, r in enumerate(results) if r.get("harness_error")]
    if herr:
        i, msg = herr[0]
        print(f"HARNESS-ERROR property={pid} cases={len(herr)} first case #{i}: {json.dumps(cases[i], default=str)[:600]}\n{msg}",
              flush=True)
        return 2

    extra_cov = {}
    if hasattr(mod, "finalize"):
        extra_cov = mod.finalize(cases, results, tier, seed) or {}

    # ---- aggregate -----------------------------------------------------------------------------
    by_sig = {}
    for i, r in enumerate(results):
        for f in r["findings"]:
            by_sig.setdefault(f["sig"], []).append((i, f))
    cross_case = set()
    for f in extra_cov.pop("_findings", []):
        by_sig.setdefault(f["sig"], []).append((f.get("case_index", -1), f))
        cross_case.add(f["sig"])   # produced by comparing several cases: re-executing one case alone cannot reproduce it
    known, fixed = load_known(pid)
    evals = sum(int(r.get("evals", 1)) for r in results)
    nontriv = set()
    for r in results:
        k = r.get("nontrivial")
        if k is None:
            continue
        if isinstance(k, (list, tuple, set)) and r.get("nontrivial_multi"):
            nontriv.update(map(str, k))
        else:
            nontriv.add(str(k))
    outcomes = {}
    for r in results:
        outcomes[r["outcome"]] = outcomes.get(r["outcome"], 0) + 1
        for o in r.get("outcomes", []) or []:  # finer-grained observed outcomes (vacuity check: many executions, one outcome = nothing collided)
            outcomes[o] = outcomes.get(o, 0) + 1

    new_sigs, known_hit = [], []
    for sig in sorted(by_sig, key=lambda s: by_sig[s][0][0]):
        if sig not in known:
            new_sigs.append(sig)
            continue
        keys = known[sig].get("_keys")
        if keys is None:
            known_hit.append(sig)
            continue
        fresh = [(i, f) for i, f in by_sig[sig] if key_hash(str(f.get("key", f.get("msg")))) not in keys]
        if len(fresh) < len(by_sig[sig]):
            known_hit.append(sig)
        if fresh:
            nsig = sig + "|input-not-in-known-witness-set"
            by_sig[nsig] = fresh
            new_sigs.append(nsig)
    if os.environ.get("VERIF_DUMP_FINDINGS"):
        dump = {sig: sorted({str(f.get("key", f.get("msg"))) for i, f in lst}) for sig, lst in by_sig.items()
                if not sig.endswith("|input-not-in-known-witness-set")}
        write_json(os.path.join(VERIF, "replays", pid + "-witness-keys.json"), dump)

    # ---- replay artefacts ----------------------------------------------------------------------
    rdir = os.path.join(VERIF, "replays", pid)
    shutil.rmtree(rdir, ignore_errors=True)
    violations = []
    for sig in new_sigs:
        idx, f = by_sig[sig][0]
        case = cases[idx] if idx >= 0 else f.get("case")
        path = os.path.join(rdir, sig_hash(sig) + ".json")
        write_json(path, {"property": pid, "signature": sig, "message": f.get("msg"), "case": case,
                          "witnesses": len(by_sig[sig]), "tier": tier,
                          "replay_cmd": f"./check {pid} --replay {path}"})
        violations.append((sig, path, f, idx))

    # confirm determinism of every new violation (twice, fresh pool worker) before reporting it
    nondet = []
    if violations and not getattr(mod, "NO_RECONFIRM", False):
        todo = [(sig, idx) for sig, _, _, idx in violations if idx >= 0 and sig.removesuffix("|input-not-in-known-witness-set") not in cross_case]
        if todo:
            rr1 = explore(mod, [cases[i] for _, i in todo], progress=False)
            rr2 = explore(mod, [cases[i] for _, i in todo], progress=False)
            for (sig, idx), a, b in zip(todo, rr1, rr2):
                sa = {f["sig"] for f in a["findings"]}
                sb = {f["sig"] for f in b["findings"]}
                base = sig.removesuffix("|input-not-in-known-witness-set")
                if base not in sa or base not in sb:
                    nondet.append(sig)

    # ---- evidence ------------------------------------------------------------------------------
    samples = extra_cov.pop("samples", None)
    if samples is None:
        samples = []
        have = [i for i, r in enumerate(results) if r.get("sample") is not None]
        if have:
            step = max(1, len(have) // 5)
            start = seed % step if step > 1 else 0
            for i in have[start::step][:5]:
                samples.append(results[i]["sample"])
        if not samples:
            step = max(1, total // 5)
            samples = [cases[i] for i in range(seed % step if step > 1 else 0, total, step)][:5]
    cov = {
        "evaluations": evals,
        "distinct_nontrivial": len(nontriv),
        "rule": mod.RULE,
        "samples": samples,
        "exhaustive": True,
        "cases": total,
        "distinct_outcomes": len(outcomes),
        "outcomes": dict(sorted(outcomes.items(), key=lambda kv: -kv[1])[:40]),
        "bound": getattr(mod, "BOUND", {}).get(tier, ""),
        "known_findings_reproduced": known_hit,
        "new_violation_signatures": new_sigs,
    }
    st = sum(int(r.get("states", 0)) for r in results)
    tr = sum(int(r.get("transitions", 0)) for r in results)
    va = sum(int(r.get("validated", 0)) for r in results)
    if mod.LEVEL == "model_checking":
        cov["states"] = st
        cov["transitions"] = tr
        cov["traces_validated_against_impl"] = va
    cov.update(extra_cov)
    ev = {
        "property_id": pid,
        "tier": tier,
        "seed": seed,
        "level": mod.LEVEL,
        "coverage": cov,
        "assumptions": list(getattr(mod, "ASSUMPTIONS", [])),
        "wall_s": round(time.time() - t0, 2),
        "violations": len(new_sigs),
    }
    # evidence of record is only ever written for /repo itself; runs against a scratch worktree (VERIF_REPO, used to try
    # seeded changes) leave /verif/evidence untouched
    ev_dir = os.path.join(VERIF, "evidence") if os.path.realpath(REPO) == "/repo" else os.path.join(VERIF, "replays", "evidence-scratch-repo")
    write_json(os.path.join(ev_dir, pid + ".json"), ev)

    # ---- report --------------------------------------------------------------------------------
    print(f"[{pid}] evaluations={cov['evaluations']} cases={total} distinct_nontrivial={cov['distinct_nontrivial']} "
          f"distinct_outcomes={len(outcomes)} wall={ev['wall_s']}s", flush=True)
    if mod.LEVEL == "model_checking":
        print(f"[{pid}] states={cov['states']} transitions={cov['transitions']} "
              f"traces_validated_against_impl={cov['traces_validated_against_impl']}")
    for sig in known_hit:
        e = known[sig]
        nfresh = len(by_sig.get(sig + "|input-not-in-known-witness-set", []))
        print(f"KNOWN-FINDING: property={pid} {e.get('what', sig)} [sig={sig}] witnesses={len(by_sig[sig]) - nfresh}", flush=True)
    if nondet:
        for sig in nondet:
            print(f"NONDETERMINISM property={pid} signature did not reproduce on replay: {sig}", flush=True)
        return 2
    for sig, path, f, idx in violations:
        was = " (regression of a fixed finding)" if sig in fixed else ""
        print(f"VIOLATION property={pid} replay={path}", flush=True)
        print(f"   signature: {sig}{was}\n   witnesses: {len(by_sig[sig])}\n   message: {str(f.get('msg'))[:600]}", flush=True)
    return 1 if violations else 0


def do_replay(mod, path: str) -> int:
    data = json.load(open(path))
    case = data["case"]
    _worker_init(mod.__name__)
    r = run_one(mod, case)
    if r.get("harness_error"):
        print("HARNESS-ERROR", r["harness_error"])
        return 2
    want = data.get("signature")
    hit = False
    for f in r["findings"]:
        mark = "*" if f["sig"] == want else " "
        print(f"{mark} {f['sig']}\n     {str(f.get('msg'))[:2000]}")
        hit = hit or f["sig"] == want
    if hit:
        print(f"VIOLATION property={mod.PID} replay={path}")
        return 1
    print(f"[{mod.PID}] replay: recorded signature not reproduced ({len(r['findings'])} other findings)")
    return 0
