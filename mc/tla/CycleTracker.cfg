SPECIFICATION Spec
CONSTANTS
  Names = {"User", "UserGroup", "UserGroupItem"}
  NoName = "None"
  MaxDepth = 2
  MaxFrames = 3
  Prefix <- PrefixDef
  Synthetic <- SyntheticDef
INVARIANTS TypeOK RestInv DepthNonNeg
CHECK_DEADLOCK FALSE
