"""TLC + conformance for the cycle-tracker model (C08, additional layer).

1. writes an MC module whose name predicates (Prefix, Synthetic) are computed with the same Python string tests the tracker uses,
2. runs TLC (invariants TypeOK, RestInv, DepthNonNeg) with `-dump dot,actionlabels`,
3. parses the complete state graph and replays EVERY distinct (source state, action) edge on the real
   unified_enter_schema / unified_exit_schema, comparing the resulting tracker state and CycleAction with the model's target state.
"""
from __future__ import annotations

import os
import re
import shutil
import subprocess
import tempfile

HERE = os.path.dirname(os.path.abspath(__file__))


def write_mc(dirpath, names, max_depth, max_frames):
    shutil.copy(os.path.join(HERE, "CycleTracker.tla"), os.path.join(dirpath, "CycleTracker.tla"))

    def prefix(a, b):
        return b.startswith(a) and b != a and not b.endswith("Item")

    def synthetic(a):
        return "Item" in a or "Property" in a

    q = lambda s: '"' + s + '"'  # noqa: E731
    pre = " \\/ ".join(f"(a = {q(a)} /\\ b = {q(b)})" for a in names for b in names if prefix(a, b)) or "FALSE"
    syn = " \\/ ".join(f"a = {q(a)}" for a in names if synthetic(a)) or "FALSE"
    with open(os.path.join(dirpath, "MCCycleTracker.tla"), "w") as f:
        f.write("---- MODULE MCCycleTracker ----\nEXTENDS CycleTracker\n"
                f"PrefixDef == [a \\in Names |-> [b \\in Names |-> ({pre})]]\n"
                f"SyntheticDef == [a \\in Names |-> ({syn})]\n====\n")
    with open(os.path.join(dirpath, "MC.cfg"), "w") as f:
        f.write("SPECIFICATION Spec\nCONSTANTS\n  Names = {" + ", ".join(q(n) for n in names) + "}\n  NoName = \"None\"\n"
                f"  MaxDepth = {max_depth}\n  MaxFrames = {max_frames}\n  Prefix <- PrefixDef\n  Synthetic <- SyntheticDef\n"
                "INVARIANTS TypeOK RestInv DepthNonNeg\nCHECK_DEADLOCK FALSE\n")


def run_tlc(dirpath, dump=True, workers=2, timeout=1500):
    cmd = ["tlc", "-workers", str(workers), "-noGenerateSpecTE", "-metadir", os.path.join(dirpath, "meta"), "-config", "MC.cfg"]
    if dump:
        cmd += ["-dump", "dot,actionlabels", os.path.join(dirpath, "graph.dot")]
    cmd += ["MCCycleTracker.tla"]
    env = dict(os.environ)
    env.pop("PYTHONPATH", None)
    r = subprocess.run(cmd, cwd=dirpath, capture_output=True, text=True, timeout=timeout, env=env)
    out = r.stdout + r.stderr
    m = re.search(r"(\d+) states generated, (\d+) distinct states found", out)
    ok = "Model checking completed. No error has been found" in out
    return {"ok": ok, "generated": int(m.group(1)) if m else 0, "distinct": int(m.group(2)) if m else 0, "output_tail": out[-1500:]}


NODE = re.compile(r'^(-?\d+) \[label="((?:[^"\\]|\\.)*)"')
EDGE = re.compile(r"^(-?\d+) -> (-?\d+) \[")


def parse_state(label):
    lab = label.replace('\\"', '"').replace("\\\\", "\\")
    parts = {}
    for piece in lab.split("\\n"):
        piece = piece.strip()
        if piece.startswith("/\\ "):
            piece = piece[3:]
        k, _, v = piece.partition(" = ")
        parts[k.strip()] = v.strip()
    st = dict(re.findall(r"(\w+) \|-> \"(\w+)\"", parts["st"]))
    stack = tuple(re.findall(r'"([^"]*)"', parts["stack"]))
    reg = frozenset(re.findall(r'"([^"]*)"', parts["reg"]))
    frames = tuple(tuple(x) for x in re.findall(r'<<"([^"]*)", "([^"]*)">>', parts["frames"]))
    lastv = re.findall(r'"([^"]*)"|(TRUE|FALSE)', parts["last"])
    last = tuple(a if a != "" or b == "" else b for a, b in lastv)
    return {"st": st, "stack": stack, "reg": reg, "frames": frames, "depth": int(parts["depth"]), "last": last}


def core_key(s):
    return (s["stack"], tuple(sorted(s["st"].items())), s["depth"], s["reg"], s["frames"])


def replay_graph(dot_path, max_depth):
    """returns (edges_total, distinct_replayed, mismatches[list of text])"""
    import pyopenapi_gen.core.parsing.unified_cycle_detection as ucd
    from pyopenapi_gen import IRSchema

    S = ucd.SchemaState
    TO_REAL = {"NS": S.NOT_STARTED, "IP": S.IN_PROGRESS, "DONE": S.COMPLETED, "PH_CYCLE": S.PLACEHOLDER_CYCLE, "PH_DEPTH": S.PLACEHOLDER_DEPTH,
               "PH_SELF": S.PLACEHOLDER_SELF_REF}
    FROM_REAL = {v: k for k, v in TO_REAL.items()}
    schema_cache = {}

    def schema(n):
        if n not in schema_cache:
            schema_cache[n] = IRSchema(name=n, type="object")
        return schema_cache[n]

    nodes = {}
    edges = []
    with open(dot_path, encoding="utf-8") as f:
        for line in f:
            m = EDGE.match(line)
            if m:
                edges.append((m.group(1), m.group(2)))
                continue
            m = NODE.match(line)
            if m:
                nodes[m.group(1)] = parse_state(m.group(2))
    old_env = os.environ.get("PYOPENAPI_MAX_DEPTH")
    os.environ["PYOPENAPI_MAX_DEPTH"] = str(max_depth)
    seen = set()
    mismatches = []
    replayed = 0
    try:
        for a, b in edges:
            src, dst = nodes[a], nodes[b]
            act = dst["last"]
            key = (core_key(src), act)
            if key in seen:
                continue
            seen.add(key)
            replayed += 1
            ctx = ucd.UnifiedCycleContext(
                schema_stack=list(src["stack"]),
                schema_states={n: TO_REAL[v] for n, v in src["st"].items() if v != "NS"},
                parsed_schemas={n: schema(n) for n in src["reg"]},
                recursion_depth=src["depth"], max_depth=max_depth)
            kind, n = act[0], act[1]
            name = None if n == "None" else n
            result = "-"
            if kind == "enter":
                ctx.allow_self_reference = act[3] == "TRUE"
                r = ucd.unified_enter_schema(name, ctx)
                result = r.action.value
                result = {"continue": "continue", "existing": "existing", "placeholder": "placeholder", "create": "create"}.get(result, result)
            elif kind == "exit-must":
                ucd.unified_exit_schema(name, ctx)
            elif kind == "exit-fall":
                ucd.unified_exit_schema(name, ctx)
                ctx.schema_states[name] = S.NOT_STARTED  # the parser's reset before it falls through to normal parsing
            elif kind == "return":
                if act[2] == "registered" and name is not None:
                    ctx.parsed_schemas[name] = schema(name)
                ucd.unified_exit_schema(name, ctx)
            else:
                continue
            got_st = {n2: "NS" for n2 in src["st"]}
            for n2, v in ctx.schema_states.items():
                got_st[n2] = FROM_REAL[v]
            got = (tuple(ctx.schema_stack), tuple(sorted(got_st.items())), ctx.recursion_depth, frozenset(ctx.parsed_schemas))
            want = (dst["stack"], tuple(sorted(dst["st"].items())), dst["depth"], dst["reg"])
            if got != want or (kind == "enter" and result != act[2]):
                mismatches.append(f"{kind}({n}{', allow=' + act[3] if kind == 'enter' else ''}) from stack={src['stack']} st={src['st']} depth={src['depth']} "
                                  f"reg={sorted(src['reg'])}: model -> {want} result={act[2]}; real -> {got} result={result}")
    finally:
        if old_env is None:
            os.environ.pop("PYOPENAPI_MAX_DEPTH", None)
        else:
            os.environ["PYOPENAPI_MAX_DEPTH"] = old_env
    return len(edges), replayed, len(nodes), mismatches


def check(names, max_depth, max_frames, scratch_base=None, workers=2):
    d = tempfile.mkdtemp(prefix="tlc-", dir=scratch_base)
    try:
        write_mc(d, names, max_depth, max_frames)
        res = run_tlc(d, dump=True, workers=workers)
        out = {"tlc": res, "names": names, "max_depth": max_depth, "max_frames": max_frames}
        if res["distinct"] == 0:
            out["error"] = "TLC did not run: " + res["output_tail"][-600:]
            return out
        edges, replayed, nnodes, mism = replay_graph(os.path.join(d, "graph.dot"), max_depth)
        out.update({"edges": edges, "distinct_edges_replayed": replayed, "graph_states": nnodes, "mismatches": mism[:20], "mismatch_count": len(mism)})
        return out
    finally:
        shutil.rmtree(d, ignore_errors=True)
