------------------------------ MODULE CycleTracker ------------------------------
(* Model of pyopenapi_gen's schema cycle tracker (core/parsing/unified_cycle_detection.py) driven by the call
   discipline of _parse_schema (core/parsing/schema_parser.py).

   Tracker variables mirror UnifiedCycleContext:
     stack  = schema_stack          st    = schema_states        depth = recursion_depth
     reg    = names present in parsed_schemas (needed because RETURN_EXISTING on a name that is not
              registered resets it to NOT_STARTED and falls through to a second exit)
   Environment = any recursive parser that obeys the enter/exit pairing of _parse_schema:
     frames = stack of <<name, mode>>, mode in {"body", "mustexit", "fallthrough"}.
   Every transition is ONE call of a real tracker function (Enter = unified_enter_schema,
   Exit* = unified_exit_schema) plus the parser bookkeeping noted in the action; the conformance replayer
   (mc/tla/conform.py) executes every edge of the reachable state graph on the real functions.            *)
EXTENDS Naturals, Sequences, FiniteSets, TLC

CONSTANTS Names,        \* schema names, e.g. {"User","UserGroup","UserGroupItem","Zed"}
          NoName,       \* the anonymous schema (None)
          MaxDepth,     \* PYOPENAPI_MAX_DEPTH
          MaxFrames,    \* bound on the parser's recursion in the model
          Prefix,       \* Prefix[a][b] = TRUE iff b starts with a, b # a and b does not end with "Item"
          Synthetic     \* Synthetic[a] = TRUE iff "Item" or "Property" occurs in a

VARIABLES stack, st, depth, reg, frames, last   \* last = <<action, name, result>> of the transition just taken

vars == <<stack, st, depth, reg, frames, last>>
All == Names \cup {NoName}
States == {"NS", "IP", "DONE", "PH_CYCLE", "PH_DEPTH", "PH_SELF"}

Init == /\ stack = <<>> /\ st = [n \in Names |-> "NS"] /\ depth = 0 /\ reg = {} /\ frames = <<>>
        /\ last = <<"init", NoName, "-">>

InStack(n) == \E i \in 1..Len(stack) : stack[i] = n
FirstIdx(n) == CHOOSE i \in 1..Len(stack) : stack[i] = n /\ \A j \in 1..(i-1) : stack[j] # n
RemoveFirst(n) == IF InStack(n)
                  THEN [i \in 1..(Len(stack)-1) |-> IF i < FirstIdx(n) THEN stack[i] ELSE stack[i+1]]
                  ELSE stack
CyclePath(n) == [i \in 1..(Len(stack) - FirstIdx(n) + 1) |-> stack[FirstIdx(n) + i - 1]]   \* without the closing name
Direct(n) == Len(CyclePath(n)) = 1
NestedProp(n) == \E i \in 1..Len(CyclePath(n)) : Prefix[n][CyclePath(n)[i]]

\* ---- unified_enter_schema -------------------------------------------------------------------------------
EnterResult(n, allow) ==
  IF n = NoName THEN "continue"
  ELSE IF st[n] = "DONE" THEN "existing"
  ELSE IF st[n] \in {"PH_CYCLE", "PH_DEPTH", "PH_SELF"} THEN "placeholder"
  ELSE IF depth + 1 > MaxDepth THEN "create-depth"
  ELSE IF InStack(n) THEN "create-cycle"
  ELSE "continue"

Enter(n, allow) ==
  /\ Len(frames) < MaxFrames
  /\ (IF frames = <<>> THEN TRUE ELSE frames[Len(frames)][2] = "body")
  /\ LET r == EnterResult(n, allow) IN
     /\ depth' = depth + 1
     /\ last' = <<"enter", n, IF r \in {"create-depth", "create-cycle"} THEN "create" ELSE r, allow>>
     /\ CASE r = "continue" ->
               /\ st' = IF n = NoName THEN st ELSE [st EXCEPT ![n] = "IP"]
               /\ stack' = IF n = NoName THEN stack ELSE Append(stack, n)
               /\ reg' = reg
               /\ frames' = Append(frames, <<n, "body">>)
          [] r = "existing" ->
               /\ UNCHANGED <<st, stack, reg>>
               /\ frames' = Append(frames, <<n, IF n \in reg THEN "mustexit" ELSE "fallthrough">>)
          [] r = "placeholder" ->
               /\ UNCHANGED <<st, stack, reg>>
               /\ frames' = Append(frames, <<n, "mustexit">>)
          [] r = "create-depth" ->
               /\ st' = [st EXCEPT ![n] = "PH_DEPTH"]
               /\ reg' = reg \cup {n}
               /\ stack' = stack
               /\ frames' = Append(frames, <<n, "mustexit">>)
          [] r = "create-cycle" ->
               /\ LET store == Synthetic[n] \/ Direct(n) \/ NestedProp(n) IN
                  /\ st' = IF store THEN [st EXCEPT ![n] = IF allow /\ Direct(n) THEN "PH_SELF" ELSE "PH_CYCLE"] ELSE st
                  /\ reg' = IF store THEN reg \cup {n} ELSE reg
               /\ stack' = stack
               /\ frames' = Append(frames, <<n, "mustexit">>)

\* ---- unified_exit_schema (+ parser bookkeeping by frame mode) ----------------------------------------------
TrackerExit(n, stNow) ==   \* the three effects of the real function
  /\ depth' = IF depth > 0 THEN depth - 1 ELSE 0
  /\ stack' = IF n = NoName THEN stack ELSE RemoveFirst(n)
  /\ st' = IF n # NoName /\ stNow[n] = "IP" THEN [stNow EXCEPT ![n] = "DONE"] ELSE stNow

ExitMust ==        \* balancing exit after existing/placeholder/create
  /\ frames # <<>> /\ frames[Len(frames)][2] = "mustexit"
  /\ LET n == frames[Len(frames)][1] IN
     /\ TrackerExit(n, st) /\ reg' = reg
     /\ frames' = SubSeq(frames, 1, Len(frames) - 1)
     /\ last' = <<"exit-must", n, "-", FALSE>>

ExitFall ==        \* RETURN_EXISTING but the schema is in no registry: exit, reset to NOT_STARTED, parse normally
  /\ frames # <<>> /\ frames[Len(frames)][2] = "fallthrough"
  /\ LET n == frames[Len(frames)][1] IN
     /\ depth' = IF depth > 0 THEN depth - 1 ELSE 0
     /\ stack' = RemoveFirst(n)
     /\ st' = [st EXCEPT ![n] = "NS"]          \* IP cannot occur here (state was DONE); parser resets to NS
     /\ reg' = reg
     /\ frames' = [frames EXCEPT ![Len(frames)] = <<n, "body">>]
     /\ last' = <<"exit-fall", n, "-", FALSE>>

Return(register) ==   \* end of the body: optional registration, then the finally-exit
  /\ frames # <<>> /\ frames[Len(frames)][2] = "body"
  /\ LET n == frames[Len(frames)][1] IN
     /\ reg' = IF register /\ n # NoName THEN reg \cup {n} ELSE reg
     /\ TrackerExit(n, st)
     /\ frames' = SubSeq(frames, 1, Len(frames) - 1)
     /\ last' = <<"return", n, IF register THEN "registered" ELSE "unregistered", FALSE>>

Next == \/ \E n \in All, a \in BOOLEAN : Enter(n, a)
        \/ ExitMust \/ ExitFall
        \/ \E r \in BOOLEAN : Return(r)

Spec == Init /\ [][Next]_vars

\* ---- properties -----------------------------------------------------------------------------------------------
TypeOK == /\ depth \in Nat /\ reg \subseteq Names /\ \A n \in Names : st[n] \in States
AtRest == frames = <<>>
RestInv == AtRest => (depth = 0 /\ stack = <<>> /\ \A n \in Names : st[n] # "IP")
DepthNonNeg == depth >= 0
=============================================================================
