#!/bin/bash
# One-time setup after a fresh restore (offline): nothing to build for Python; self-test the framework.
set -e
cd "$(dirname "${BASH_SOURCE[0]}")"
mkdir -p evidence replays
export PYTHONPATH="${VERIF_REPO:-/repo}/src:$PWD" PYTHONHASHSEED=0 PYTHONDONTWRITEBYTECODE=1
/venv/bin/python -m mc.selftest
