#!/usr/bin/env python3
"""seed_add.py <PID> <A|B|name> "<what it needs to manifest>" "<detected by ...>"  : copy an agent's deliverable into /verif/seeded/<PID>-<name>/"""
import json, os, shutil, sys
pid, name, needs, detected = sys.argv[1:5]
src = f"/tmp/wtout/{pid}"
dst = f"/verif/seeded/{pid}-{name}"
os.makedirs(dst, exist_ok=True)
shutil.copy(f"{src}/{name}.diff", f"{dst}/patch.diff")
shutil.copy(f"{src}/demo_{name}.py", f"{dst}/demo.py")
if os.path.exists(f"{src}/notes.md"):
    shutil.copy(f"{src}/notes.md", f"{dst}/notes.md")
meta = {"property": pid, "id": f"{pid}-{name}", "breaks": pid, "needs_to_manifest": needs,
        "origin": "fresh sub-agent given only the property text and a scratch worktree",
        "confirmed": {"applies_to": "be15637", "test_suite_with_patch": "1617 passed / 13 failed (same as baseline) - run by the agent; re-run by me where noted",
                      "demo_with_patch": "exit 1", "demo_without_patch": "exit 0"},
        "detected_by": detected}
json.dump(meta, open(f"{dst}/meta.json", "w"), indent=1)
print("seeded", dst)
