#!/usr/bin/env python3
"""seed_add2.py : store the wave-2 deliverables (/tmp/wtout2/<PID>/{A,B}.diff) as /verif/seeded/<PID>-{C,D}/ (table below)."""
import json, os, shutil, sys
T = {
 ("C03", "A"): ("a date-time value with a UTC offset other than Z/+00:00 (replace(tzinfo=utc) instead of astimezone in the converter hook)", "C03 quick: round-trip changes the document (date-time instances with non-zero offsets are in the instance menu)"),
 ("C03", "B"): ("OpenAPI 3.1 type list with \"null\" on a REQUIRED property whose schema is an inline enum/object + an instance with null there", "C03 quick (after adding the *-type-list-null field kinds): conforming document rejected"),
 ("C06", "A"): ("one components/responses entry referenced under >= 2 status codes + pass-through transport + a later status occurring", "C06 quick (after adding the component-$ref document variant): 4xx/5xx raises HTTPError that is not a ClientError/ServerError"),
 ("C06", "B"): ("a declared 4xx/5xx code without a named exception class (499, 520) + pass-through transport", "C06 quick (after adding 499/520 to the declared-set alphabet)"),
 ("C09", "A"): ("component X with an inline array-of-inline-objects property p while a schema named X+P already exists (id()-derived name reaches the output)", "C09 quick (after adding the `promoted` representative document): determinism - file trees differ"),
 ("C09", "B"): ("two generations in ONE process from the same spec path with the file edited in between (parsed-spec memo keyed by path)", "C09 quick (after making the user's spec a fixed path edited in place): noop/stale clauses"),
 ("C11", "A"): ("history: shared core, two clients with different error statuses, forced RE-generation of one with unchanged codes", "C11 quick BFS: a client generated earlier does not import after the step"),
 ("C11", "B"): ("the shared core is the DEFAULT core of the first client; later clients point at <first>.core; first client declares a status nobody else does", "C11 quick (after adding the first-client-core layout)"),
 ("C12", "A"): ("two generations of the same output package in one process with different core layouts + a free-form object schema (wrapper-class source cache keyed without the core)", "C12 quick (after adding core-switch histories and per-case process isolation): import-scan models imports a module outside the closure"),
 ("C12", "B"): ("core_package given as a single top-level name + an operation declaring a 1xx/3xx response (other path helper renders a relative import that climbs out of the top-level package)", "C12 quick (after correcting the relative-import depth rule and adding the `codes` document to the layout slice); also C01 quick (ImportError)"),
 ("C14", "A"): ("history: non-discriminated union with subset-required variants; a payload of the less specific variant decoded earlier in the same process/list (last-match fast path)", "C14 quick: heterogeneous lists / sequences of decodes"),
 ("C14", "B"): ("a NULLABLE discriminated oneOf/anyOf whose variants are only told apart by the discriminator", "C14 quick (after adding nullable discriminated unions)"),
 ("C16", "A"): ("a non-None value in an Optional[scalar | str/int Enum] field (too-wide type test in the fast path)", "C16 quick"),
 ("C16", "B"): ("instance graph with a cycle whose back edge sits in a dict-valued position, classes with unresolved/local annotations", "C16 quick (after adding dclocal graph nodes)"),
 ("C17", "A"): ("HeadersAuth header name already present from default headers / the call / an earlier plugin (merge direction)", "C17 quick"),
 ("C17", "B"): ("a falsy but meaningful pass-through keyword: json={} / [] / 0", "C17 quick (after adding the falsy caller arguments)"),
 ("C18", "A"): ("real httpx.Response, NDJSON string value containing whitespace, chunk boundary right after that whitespace", "C18 quick: chunk schedules of the NDJSON records"),
 ("C18", "B"): ("real httpx.Response, >= 2 SSE events, chunk boundary inside the blank-line separator", "C18 quick: chunk schedules of the SSE records"),
 ("C20", "A"): ("two operationIds that collide after sanitising AND tags that differ textually but normalise to the same client", "C20 quick (after adding the opids-tagged namespace); also C07"),
 ("C20", "B"): ("two tags whose spellings differ by a symbol other than whitespace/-/_ and derive the same module name", "C07 and C13 quick (tag patterns dot/slash/colon-plus); C20's alphabet does not include tags - see DESIGN.md 12"),
}
for (pid, v), (needs, det) in T.items():
    name = {"A": "C", "B": "D"}[v]
    src = f"/tmp/wtout2/{pid}"
    dst = f"/verif/seeded/{pid}-{name}"
    os.makedirs(dst, exist_ok=True)
    shutil.copy(f"{src}/{v}.diff", f"{dst}/patch.diff")
    shutil.copy(f"{src}/demo_{v}.py", f"{dst}/demo.py")
    shutil.copy(f"{src}/notes.md", f"{dst}/notes.md")
    meta = {"property": pid, "id": f"{pid}-{name}", "breaks": pid, "needs_to_manifest": needs, "wave": 2,
            "origin": "fresh sub-agent given only the property text, a scratch worktree at repo HEAD d3b4f40 and the triggering conditions of the round-1 changes (to be different from them)",
            "confirmed": {"applies_to": "d3b4f40", "test_suite_with_patch": "tools/baseline.py on the patched worktree: passed=1617 failed_or_skipped=13 baseline_missing=0 - run by me (and by the agent)",
                          "demo_with_patch": "exit 1 (run by me)", "demo_without_patch": "exit 0 (run by me)"},
            "detected_by": det}
    json.dump(meta, open(f"{dst}/meta.json", "w"), indent=1)
    print("seeded", dst)
