#!/usr/bin/env python3
"""Print the table of DESIGN.md 9.1 from evidence/*.json (run after tools/runall.sh quick)."""
import glob, json, os
V = os.path.dirname(os.path.dirname(os.path.abspath(__file__)))
print("| check | cases | executions | states / transitions / traces validated | wall | bound (as written to the evidence) |\n|---|---|---|---|---|---|")
tot = 0.0
for p in sorted(glob.glob(os.path.join(V, "evidence", "C*.json"))):
    e = json.load(open(p))
    c = e["coverage"]
    stt = f"{c['states']} / {c['transitions']} / {c.get('traces_validated_against_impl', '')}" if "states" in c else ""
    wall = e.get("wall_s", e.get("wall_seconds", c.get("wall_seconds", e.get("duration_s", 0)))) or 0
    tot += float(wall)
    print(f"| {e['property_id']} | {c.get('cases', '')} | {c.get('evaluations', '')} | {stt} | {round(float(wall))} s | {c.get('bound', '')} |")
print(f"\ntotal wall {tot / 60:.1f} min; tiers: {sorted({json.load(open(p))['tier'] for p in glob.glob(os.path.join(V, 'evidence', 'C*.json'))})}")
