#!/usr/bin/env python3
"""seed_add5.py : store the wave-5 deliverables (/tmp/wtout5/<PID>/{A,B}.diff) as /verif/seeded/<PID>-{I,J}/ ; detected_by is filled from the trial log."""
import json, os, shutil, sys
T = {
 ("C01", "A"): "a non-required array property whose items $ref the schema itself (tree `children`): the whole annotation is quoted and ` | None` appended to the string",
 ("C01", "B"): "a declared 4xx/5xx status that has no registered name (499, 520, 599): alias class filtered out, the handler still imports it",
 ("C02", "A"): "an object schema with BOTH properties and a schema-valued additionalProperties: emitted as the dict wrapper, declared fields lost",
 ("C02", "B"): "an optional property with a non-scalar default (object default, typed map with default {}, oneOf with an object default): emitted without default, i.e. required",
 ("C03", "A"): "free-form object spelled `additionalProperties: {}` + an instance that has entries",
 ("C03", "B"): "format: time with 4-6 fractional digits",
 ("C04", "A"): "path-level parameters + at least two operations under the same path item (the later operations lose them)",
 ("C04", "B"): "a JSON request body that is an array of booleans or a bare boolean (sent as \"true\"/\"false\" strings)",
 ("C05", "A"): "two inline bodies that have `properties` but no `type: object`, under two 2xx statuses of one operation (same synthetic name)",
 ("C05", "B"): "an operation whose primary success status declares no body while another declared 2xx status does",
 ("C06", "A"): "bundled transport + an error body longer than 2048 bytes with a multi-byte character at the cut, or a body that is not valid UTF-8",
 ("C06", "B"): "bundled transport + status 499 or 599 (family table built with end-exclusive ranges)",
 ("C07", "A"): "a path item that carries `$ref` next to inline operations",
 ("C07", "B"): "four or more operations with one operationId that share a tag client",
 ("C08", "A"): "a cycle made only of schemas that are a bare `$ref` (forwarding names)",
 ("C08", "B"): "an array of arrays of primitives (number[][]) in an acyclic document",
 ("C09", "A"): "a document without operations + a non-force re-run over the untouched output",
 ("C09", "B"): "history: generate v1, a non-force run with v2 is rejected, v1 is re-run without force (scratch directory not cleaned after the rejection)",
 ("C10", "A"): "a sibling core whose directory name starts with the client's (petstore + petstore_core) and a difference that lies only in the core package",
 ("C10", "B"): "the output package directory exists and holds only hidden entries (.gitkeep), force off: treated as a first run and deleted",
 ("C11", "A"): "client B declares only codes client A already registered; later A is regenerated from a spec that drops such a code and adds a new one",
 ("C11", "B"): "any client sharing the core declares 418 (the only reason phrase with an apostrophe)",
 ("C12", "A"): "a nested output package (acme.petstore) + a union with discriminator.mapping: get_mapping() imports from a foreign top-level package",
 ("C12", "B"): "a response that declares only a YAML media type with a non-string schema: the client imports PyYAML",
 ("C13", "A"): "an operation named `date` in the same tag as an earlier operation that has a format: date parameter (mock methods emitted alphabetically)",
 ("C13", "B"): "a document with an untagged operation and an operation explicitly tagged `default`",
 ("C14", "A"): "a discriminator value that a variant's own enum lists but the mapping omits + structurally overlapping variants",
 ("C14", "B"): "a discriminator mapping written with bare schema names (dog: Dog)",
 ("C15", "A"): "enum values of which two collide after sanitising while a third one sanitises to the suffixed spelling (draft, DRAFT, draft-1)",
 ("C15", "B"): "a multi-line info.description with a triple quote or a backslash on its second or a later line",
 ("C16", "A"): "the empty string in an Optional[str] / Optional[bytes] position",
 ("C16", "B"): "an aware datetime with a non-zero UTC offset (replace(tzinfo=) instead of astimezone)",
 ("C17", "A"): "CompositeAuth with an OAuth2Auth whose refresh callback really suspends, placed before a plugin that writes the same header",
 ("C17", "B"): "a query-located API key containing characters that are reserved in a query string",
 ("C18", "A"): "an SSE block without data (heartbeat `event: ping`, `retry:` / `id:` only) followed by another event",
 ("C18", "B"): "a comment line between two field lines of one SSE block",
 ("C19", "A"): "about 150 list-of-inline-object schemas declared before schemas that refer to one another + another order of the schemas",
 ("C19", "B"): "a YAML rendering with unquoted numeric discriminator mapping keys",
 ("C20", "A"): "two schema names longer than 128 characters that agree in their first 128",
 ("C20", "B"): "a schema or tag name in which a separator, symbol or non-ASCII letter precedes a digit (_2FASettings, #1 Accounts)",
}
verdict = {}
for l in open(sys.argv[1] if len(sys.argv) > 1 else "/tmp/wave5-final.log"):
    parts = l.split()
    if len(parts) > 4 and parts[0] in {k[0] for k in T} and parts[1] in ("A", "B"):
        verdict[(parts[0], parts[1])] = l.strip()
for (pid, v), needs in T.items():
    name = {"A": "I", "B": "J"}[v]
    src = f"/tmp/wtout5/{pid}"
    dst = f"/verif/seeded/{pid}-{name}"
    os.makedirs(dst, exist_ok=True)
    shutil.copy(f"{src}/{v}.diff", f"{dst}/patch.diff")
    shutil.copy(f"{src}/demo_{v}.py", f"{dst}/demo.py")
    shutil.copy(f"{src}/notes.md", f"{dst}/notes.md")
    line = verdict.get((pid, v), "")
    meta = {"property": pid, "id": f"{pid}-{name}", "breaks": pid, "needs_to_manifest": needs, "wave": 5,
            "origin": "fresh sub-agent given only the property text, a scratch worktree at repo HEAD cd8c286 and the triggering conditions of the changes of rounds 1-4 (to be different from them)",
            "confirmed": {"applies_to": "cd8c286", "test_suite_with_patch": "tools/baseline.py on the patched worktree: passed=1617 failed_or_skipped=13 baseline_missing=0 - run by me (and by the agent)",
                          "demo_with_patch": "exit 1 (run by me)", "demo_without_patch": "exit 0 (run by me)"},
            "detected_by": ("quick check (final trial): " + line[:400]) if line else "see seeded/MATRIX.md"}
    if (pid, v) == ("C19", "B"):
        meta["neutralised_by_fix"] = "f2253aa"
    if os.path.exists(f"{src}/{v}.orig-cd8c286.diff"):
        shutil.copy(f"{src}/{v}.orig-cd8c286.diff", f"{dst}/patch.orig-cd8c286.diff")
    json.dump(meta, open(f"{dst}/meta.json", "w"), indent=1)
print("stored", len(T))
