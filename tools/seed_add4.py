#!/usr/bin/env python3
"""seed_add4.py : store the wave-4 deliverables (/tmp/wtout4/<PID>/{A,B}.diff) as /verif/seeded/<PID>-{G,H}/ (table below)."""
import json, os, shutil
T = {
 ("C01", "A"): ("two component schemas whose names collide after sanitisation, both really used (self-import detection uses the pre-de-collision file name)", "C01 quick after adding the slice of colliding schema names that are all used"),
 ("C01", "B"): ("three or more used schemas with the same sanitised module stem (OrderItem, Order_Item, order-item)", "C01 quick after the same slice (3- and 4-way groups)"),
 ("C02", "A"): ("a property whose schema value is null (YAML `note:`): silently dropped", "C02 quick after adding the null-schema field kind"),
 ("C02", "B"): ("a component schema named like the generator's synthetic name for an inline request/response body of an operation", "C02 quick after comparing every representative document (incl. the new `synthetic` one) against the reference"),
 ("C03", "A"): ("format: uuid with a v1/v5/nil UUID (UUID(data, version=4) rewrites the version bits)", "C03 quick as it stood"),
 ("C03", "B"): ("format: binary / byte with a base64 text containing + or /", "C03 quick after adding such instances"),
 ("C04", "A"): ("JSON array body in which the caller puts the same model instance more than once (treated as a cycle, sent as null)", "C04 quick after adding the repeated-instance argument"),
 ("C04", "B"): ("transport with CompositeAuth(BearerAuth, ApiKeyAuth(query)) + an operation called with query parameters", "C17 quick as it stood (the auth pipeline is C17's subject; C04's clients carry no auth)"),
 ("C05", "A"): ("2xx body that is a $ref to a named string / integer enum (returned as bare str / int)", "C05 quick after adding enum-typed bodies"),
 ("C05", "B"): ("text/event-stream body that ends right after the last field line, without the terminating blank line", "C05 quick after adding that framing; C18 quick (unterminated final record)"),
 ("C06", "A"): ("streaming operation (SSE / bytes) with a declared 4xx/5xx that has content + pass-through transport", "C06 quick after adding streaming success responses to the declared-set alphabet"),
 ("C06", "B"): ("non-2xx answer with a Retry-After header in HTTP-date form", "C06 quick after adding response-header kinds"),
 ("C07", "A"): ("a document mixing untagged operations with operations tagged `default` / `Default`", "C07 quick after adding the default-mix tag pattern"),
 ("C07", "B"): ("a `trace` operation", "C07 quick as it stood (every method is among the shapes)"),
 ("C08", "A"): ("outer schema T before hub H; H -> P -> H listed before H's self-reference; P -> H (exit guard returns early at depth 0)", "C08 quick as it stood (TLC conformance replay and the rest clause)"),
 ("C08", "B"): ("PYOPENAPI_MAX_DEPTH unset + a $ref chain deeper than ~330 levels (default limit tied to the interpreter)", "C08 quick after adding chains with the variable unset"),
 ("C09", "A"): ("post-processing on + non-force re-run + temp directory reached through a symlink", "C09 quick after adding the environment matrix"),
 ("C09", "B"): ("an existing tree that differs from the generated one only in indentation or blank lines", "C09 quick after adding hand-made drift cases"),
 ("C10", "A"): ("a directory between project root and package is a symlink INTO the project + first/forced run (ancestor markers written next to the link target)", "C10 quick after adding the symlinked layout (containment judged on resolved paths)"),
 ("C10", "B"): ("an OSError exactly at the write of a core runtime module during a non-force run (swallowed as 'file not found')", "C10 quick after making witness keys name the crash point"),
 ("C11", "A"): ("history: shared core, a REJECTED non-force run of one client (status code dropped), then a forced generation of another client", "C11 quick as it stood"),
 ("C11", "B"): ("a client declaring an error code without a registered name (499, 520) + a later generation of another client", "C11 quick after adding unnamed codes to the sweep"),
 ("C12", "A"): ("two clients sharing one core where the later one lacks a 5xx (or 4xx) status: the core's alias module loses a base-class import", "C12 quick after adding two-client histories; C11 quick as it stood"),
 ("C12", "B"): ("an alias-type schema whose description contains a triple-quote fence with an import of the generator", "C12 quick after adding hostile document text; C15 quick as it stood"),
 ("C13", "A"): ("a second generation in one process with another tag set (class-level list in the mocks emitter)", "C13 quick after adding in-process histories (and the generator-state janitor that keeps other cases independent)"),
 ("C13", "B"): ("an `options` operation (dropped from client and Protocol, kept in the mock)", "C13 quick after adding OPTIONS / HEAD shapes"),
 ("C14", "A"): ("one object with two required union properties over the same variants in reversed order (memoised split keyed by the order-insensitive Union)", "C14 quick (documents hold both orders of a variant set); pair holders added on top"),
 ("C14", "B"): ("union without discriminator whose earlier variant has only nullable required properties", "C14 quick after adding such a variant"),
 ("C15", "A"): ("a property name with a character outside the Basic Multilingual Plane (json.dumps writes surrogate escapes)", "C15 quick as it stood (emoji payload at property.name)"),
 ("C15", "B"): ("a path variable with a non-word character on an operation with two request media types", "C15 quick after adding the path.name position on such an operation"),
 ("C16", "A"): ("a bytes value whose base64 needs + or / (encoder switched to the URL-safe alphabet)", "C16 quick after adding such a leaf value"),
 ("C16", "B"): ("a dataclass WITHOUT key map whose field names end in an underscore (id_, type_)", "C16 quick after adding the plain-underscore key-map variant"),
 ("C17", "A"): ("two calls on one transport, the earlier one with caller-supplied cookies", "C17 quick after adding per-request cookies"),
 ("C17", "B"): ("auth plugin that does not set Authorization (ApiKeyAuth / HeadersAuth) together with bearer_token=", "C17 quick after adding the clause on credentials the configuration does not call for"),
 ("C18", "A"): ("an NDJSON record that is falsy in Python ({}, [], 0, false, null, \"\")", "C18 quick after adding such records (reference clause)"),
 ("C18", "B"): ("SSE field lines without the optional space after the colon", "C18 quick as it stood (record N)"),
 ("C19", "A"): ("a YAML file written entirely in flow style (starts with `{`)", "C19 quick as it stood (yaml-flow rendering)"),
 ("C19", "B"): ("one tag spelled in two ways that split into words differently + an order of `paths` that lists the plainer spelling first", "C19 quick after adding the tag_spellings document"),
 ("C20", "A"): ("a schema named None / True / False in any capitalisation", "C20 quick as it stood (regression of the defect fixed by 631d18b)"),
 ("C20", "B"): ("two operationIds of one client where the lower-case one is not a fixed point of the sanitiser (list, export_) and the other derives the same name", "C20 quick as it stood"),
}
for (pid, v), (needs, det) in T.items():
    name = {"A": "G", "B": "H"}[v]
    src = f"/tmp/wtout4/{pid}"
    dst = f"/verif/seeded/{pid}-{name}"
    os.makedirs(dst, exist_ok=True)
    shutil.copy(f"{src}/{v}.diff", f"{dst}/patch.diff")
    shutil.copy(f"{src}/demo_{v}.py", f"{dst}/demo.py")
    shutil.copy(f"{src}/notes.md", f"{dst}/notes.md")
    meta = {"property": pid, "id": f"{pid}-{name}", "breaks": pid, "needs_to_manifest": needs, "wave": 4,
            "origin": "fresh sub-agent given only the property text, a scratch worktree at repo HEAD cd8c286 and the triggering conditions of the changes of rounds 1-3 (to be different from them)",
            "confirmed": {"applies_to": "cd8c286", "test_suite_with_patch": "tools/baseline.py on the patched worktree: passed=1617 failed_or_skipped=13 baseline_missing=0 - run by me (and by the agent)",
                          "demo_with_patch": "exit 1 (run by me)", "demo_without_patch": "exit 0 (run by me)"},
            "detected_by": det}
    json.dump(meta, open(f"{dst}/meta.json", "w"), indent=1)
print("stored", len(T))
