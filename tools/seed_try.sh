#!/bin/bash
# seed_try.sh <patch> <PID> [tier]   apply patch to scratch worktree /tmp/wt/my, run the check with VERIF_REPO, revert.
set -u
P="$1"; PID="$2"; TIER="${3:-quick}"
WT=/tmp/wt/my
git -C $WT checkout -q -- . && git -C $WT clean -fdq
git -C $WT apply "$P" || { echo "PATCH DOES NOT APPLY"; exit 3; }
cd /verif
VERIF_REPO=$WT ./check $PID --tier $TIER 2>&1 | grep -v "^KNOWN-FINDING" | grep -v "^  \.\." | head -${LINES_MAX:-14}
git -C $WT checkout -q -- . && git -C $WT clean -fdq
