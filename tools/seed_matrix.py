#!/usr/bin/env python3
"""Apply every seeded change to a scratch worktree of /repo (at /repo's HEAD, outside /repo and /verif), run the check that is
expected to catch it (quick tier, VERIF_REPO pointing at the worktree), record the verdict in seeded/MATRIX.md, revert."""
import json, os, subprocess, sys, glob, time
V = os.path.dirname(os.path.dirname(os.path.abspath(__file__)))
WT = "/tmp/wt/my"
OVERRIDE = {"C01-B": "C11", "C06-B": "C11"}


def sh(cmd, **kw):
    return subprocess.run(cmd, shell=True, capture_output=True, text=True, **kw)


def main():
    only = set(sys.argv[1:])
    if not os.path.isdir(WT):
        sh(f"git -C /repo worktree add --detach {WT} HEAD")
    head = sh("git -C /repo rev-parse HEAD").stdout.strip()
    sh(f"git -C {WT} checkout -q --detach {head}; git -C {WT} checkout -q -- .; git -C {WT} clean -fdq")
    rows = []
    for d in sorted(glob.glob(os.path.join(V, "seeded", "C*-*"))):
        sid = os.path.basename(d)
        if only and sid not in only:
            continue
        pid = OVERRIDE.get(sid, sid.split("-")[0])
        r = sh(f"git -C {WT} apply {d}/patch.diff")
        if r.returncode != 0:
            rows.append((sid, pid, "PATCH-DOES-NOT-APPLY", "", 0))
            continue
        t0 = time.time()
        env = dict(os.environ, VERIF_REPO=WT)
        r = subprocess.run(["./check", pid, "--tier", "quick"], cwd=V, env=env, capture_output=True, text=True)
        sigs = [l.strip()[11:] for l in r.stdout.splitlines() if l.strip().startswith("signature:")]
        verdict = "DETECTED" if (r.returncode == 1 and "VIOLATION property=" in r.stdout) else f"MISSED(rc={r.returncode})"
        rows.append((sid, pid, verdict, sigs[0][:150] if sigs else "", round(time.time() - t0)))
        sh(f"git -C {WT} checkout -q -- .; git -C {WT} clean -fdq")
        print(rows[-1], flush=True)
        m = json.load(open(f"{d}/meta.json"))
        m["last_matrix_run"] = {"repo_head": head[:7], "check": pid, "verdict": verdict, "first_signature": sigs[0] if sigs else None}
        json.dump(m, open(f"{d}/meta.json", "w"), indent=1)
    with open(os.path.join(V, "seeded", "MATRIX.md"), "w") as f:
        f.write(f"# Seeded changes vs checks (quick tier), /repo HEAD {head[:7]}\n\n| seeded change | check | verdict | first new signature | s |\n|---|---|---|---|---|\n")
        for row in rows:
            f.write("| " + " | ".join(str(x) for x in row) + " |\n")
    bad = [r for r in rows if r[2] != "DETECTED"]
    print(f"{len(rows) - len(bad)}/{len(rows)} detected")
    return 1 if bad else 0


if __name__ == "__main__":
    sys.exit(main())
