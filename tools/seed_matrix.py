#!/usr/bin/env python3
"""Apply every seeded change to a scratch worktree of /repo (at /repo's HEAD, outside /repo and /verif), run the check that is
expected to catch it (quick tier, VERIF_REPO pointing at the worktree), record the verdict in seeded/MATRIX.md, revert."""
import json, os, subprocess, sys, glob, time
V = os.path.dirname(os.path.dirname(os.path.abspath(__file__)))
OVERRIDE = {"C01-B": "C11", "C06-B": "C11", "C04-H": "C17", "C15-I": "C20"}  # history / auth-pipeline defects delivered under another property


def sh(cmd, **kw):
    return subprocess.run(cmd, shell=True, capture_output=True, text=True, **kw)


def one(job):
    slot, d, head = job
    wt = f"/tmp/wt/m{slot}"
    if not os.path.isdir(wt):
        sh(f"git -C /repo worktree add --detach {wt} HEAD")
    sh(f"git -C {wt} checkout -q --detach {head}; git -C {wt} checkout -q -- .; git -C {wt} clean -fdq")
    sid = os.path.basename(d)
    pid = OVERRIDE.get(sid, sid.split("-")[0])
    r = sh(f"git -C {wt} apply {d}/patch.diff")
    if r.returncode != 0:
        return (sid, pid, "PATCH-DOES-NOT-APPLY", "", 0)
    t0 = time.time()
    env = dict(os.environ, VERIF_REPO=wt)
    r = subprocess.run(["./check", pid, "--tier", "quick"], cwd=V, env=env, capture_output=True, text=True)
    sigs = [l.strip()[11:] for l in r.stdout.splitlines() if l.strip().startswith("signature:")]
    verdict = "DETECTED" if (r.returncode == 1 and "VIOLATION property=" in r.stdout) else f"MISSED(rc={r.returncode})"
    row = (sid, pid, verdict, sigs[0][:150] if sigs else "", round(time.time() - t0))
    sh(f"git -C {wt} checkout -q -- .; git -C {wt} clean -fdq")
    print(row, flush=True)
    m = json.load(open(f"{d}/meta.json"))
    m["last_matrix_run"] = {"repo_head": head[:7], "check": pid, "verdict": verdict, "first_signature": sigs[0] if sigs else None}
    json.dump(m, open(f"{d}/meta.json", "w"), indent=1)
    return row


def main():
    import queue
    import threading

    only = set(a for a in sys.argv[1:] if not a.startswith("-j"))
    par = int(([a[2:] for a in sys.argv[1:] if a.startswith("-j")] or ["3"])[0])
    head = sh("git -C /repo rev-parse HEAD").stdout.strip()
    import fnmatch
    dirs = [d for d in sorted(glob.glob(os.path.join(V, "seeded", "C*-*"))) if os.path.isdir(d) and (not only or any(fnmatch.fnmatch(os.path.basename(d), o) for o in only))]
    # a change that a later fix: commit made ineffective is kept for the record but cannot be detected any more
    dirs = [d for d in dirs if not json.load(open(os.path.join(d, "meta.json"))).get("neutralised_by_fix")]
    q = queue.Queue()
    for d in dirs:
        q.put(d)
    rows = []

    def lane(slot):
        while True:
            try:
                d = q.get_nowait()
            except queue.Empty:
                return
            rows.append(one((slot, d, head)))

    ts = [threading.Thread(target=lane, args=(i,)) for i in range(par)]
    [t.start() for t in ts]
    [t.join() for t in ts]
    # a run over a subset updates the rows of that subset and keeps the others
    mpath = os.path.join(V, "seeded", "MATRIX.md")
    merged = {}
    if only and os.path.exists(mpath):
        for l in open(mpath):
            c = [x.strip() for x in l.strip().strip("|").split(" | ")]
            if l.startswith("| C") and len(c) >= 5:
                merged[c[0]] = (c[0], c[1], c[2], " | ".join(c[3:-1]), c[-1])
    for r in rows:
        merged[r[0]] = r
    allrows = sorted(merged.values())
    for i in range(par):
        sh(f"git -C /repo worktree remove --force /tmp/wt/m{i}")
    with open(mpath, "w") as f:
        det = sum(1 for r in allrows if r[2] == "DETECTED")
        f.write(f"# Seeded changes vs checks (quick tier), /repo HEAD {head[:7]}\n\n{len(allrows)} changes from seven waves of independent sub-agents; {det} detected"
                f"{', ' + str(len(allrows) - det) + ' not (see the verdict column; NEUTRALISED = made ineffective by a repair of the unchanged tree)' if det != len(allrows) else ''}.\n\n"
                "| seeded change | check | verdict | first new signature | s |\n|---|---|---|---|---|\n")
        for row in allrows:
            f.write("| " + " | ".join(str(x) for x in row) + " |\n")
    bad = [r for r in rows if r[2] != "DETECTED"]
    print(f"{len(rows) - len(bad)}/{len(rows)} detected")
    return 1 if bad else 0


if __name__ == "__main__":
    sys.exit(main())
