#!/usr/bin/env python3
"""seed_add6.py : store the wave-6 deliverables (/tmp/wtout6/<PID>/{A,B}.diff) as /verif/seeded/<PID>-{K,L}/ ; detected_by is filled from the trial log,
the confirmation line (demo with / without, pinned suite with the patch) from the confirmation log."""
import json, os, shutil, sys
T = {
 ("C01", "A"): "an enum with three values of which two sanitise to one member name X and a third sanitises to X_1 by itself (v1, V1, v1-1): the member name is emitted twice",
 ("C01", "B"): "a request body with two or more content types (overload path) + an optional parameter declared before a required one: a non-default argument follows a default one",
 ("C02", "A"): "an OpenAPI 3.1 type list that spells \"null\" first ([\"null\", \"integer\"])",
 ("C02", "B"): "an inline primitive / simple-array property whose name, spelled as a class name, equals the name of a component schema (owner / Owner) and is not a $ref to it",
 ("C04", "A"): "an operation whose method is DELETE / GET / HEAD and that declares a requestBody (the body is not sent)",
 ("C04", "B"): "a header parameter whose name merely starts with Accept / Content-Type / Authorization (Accept-Language)",
 ("C05", "A"): "a 2xx oneOf/anyOf body with a variant that is an array of a model which is not itself a variant and has a renamed field; the server answers with that variant",
 ("C05", "B"): "a 2xx response with two content types of different Python types, the answer in the one declared first and its media type spelled with upper-case letters",
 ("C07", "A"): "an operation with a wildcard range status key (2XX / 4XX / 5XX)",
 ("C07", "B"): "the naming strategy selected through the Python API by its string spelling (\"clean\", \"path\") instead of the enum member",
 ("C09", "A"): "an operation with an undeclared path-template variable and a required request body (parameter order varies between generations)",
 ("C09", "B"): "a string enum whose list repeats a value + two interpreter processes with different hash seeds",
 ("C10", "A"): "existing package, no force, a hand edit made only of indentation / blank-line changes",
 ("C10", "B"): "existing package, no force, all *.py modules identical, a generated non-Python artefact (py.typed, core/README.md) missing from the existing output",
 ("C12", "A"): "an operation carrying deprecated: true (typing_extensions imported by endpoint and mock modules)",
 ("C12", "B"): "an interpreter in which the distribution pyopenapi-gen is absent (core/__init__.py asks importlib.metadata for its version; no import statement involved)",
 ("C13", "A"): "a streaming response on an operation with no parameters at all (mock signature differs from the protocol)",
 ("C13", "B"): "a 2xx JSON response without schema on a path whose last resource segment matches a component schema name (/pets/{petId} + Pet)",
 ("C19", "A"): "one response that offers a streaming media type together with a non-streaming one, the streaming one listed first (order of the content map)",
 ("C19", "B"): "a JSON document indented with tabs in a file without .json suffix",
}
verdict, confirm = {}, {}
for l in open(sys.argv[1] if len(sys.argv) > 1 else "/tmp/wave6-final.log"):
    parts = l.split()
    if len(parts) > 4 and parts[0] in {k[0] for k in T} and parts[1] in ("A", "B"):
        verdict[(parts[0], parts[1])] = l.strip()
for l in open(sys.argv[2] if len(sys.argv) > 2 else "/tmp/confirm6.log"):
    parts = l.split()
    if len(parts) > 3 and parts[1] in ("A", "B"):
        confirm[(parts[0], parts[1])] = l.strip()
for (pid, v), needs in T.items():
    name = {"A": "K", "B": "L"}[v]
    src = f"/tmp/wtout6/{pid}"
    dst = f"/verif/seeded/{pid}-{name}"
    c = confirm[(pid, v)]
    assert "demo_without=0" in c and "demo_with=1" in c and "baseline_missing=0" in c, c
    os.makedirs(dst, exist_ok=True)
    shutil.copy(f"{src}/{v}.diff", f"{dst}/patch.diff")
    shutil.copy(f"{src}/demo_{v}.py", f"{dst}/demo.py")
    shutil.copy(f"{src}/notes.md", f"{dst}/notes.md")
    line = verdict.get((pid, v), "")
    meta = {"property": pid, "id": f"{pid}-{name}", "breaks": pid, "needs_to_manifest": needs, "wave": 6,
            "origin": "fresh sub-agent given only the property text, a scratch worktree at repo HEAD f2253aa and the triggering conditions of the changes of rounds 1-5 (to be different from them)",
            "confirmed": {"applies_to": "f2253aa", "test_suite_with_patch": "tools/baseline.py on the patched worktree: " + c.split("baseline: ")[1] + " - run by me (and by the agent)",
                          "demo_with_patch": "exit 1 (run by me)", "demo_without_patch": "exit 0 (run by me)"},
            "detected_by": ("quick check (final trial): " + line[:400]) if line else "see seeded/MATRIX.md"}
    json.dump(meta, open(f"{dst}/meta.json", "w"), indent=1)
print("stored", len(T))
