#!/usr/bin/env python3
"""Maintain /verif/known_findings.json (never called by a check).

  kf.py add <PID> [sighash ...]      add the violations of the last run (replays/<PID>/*.json) as known findings
  kf.py list [PID]
  kf.py fixed <PID> <sighash|signature> <commit>   turn an entry into a 'fixed' record
  kf.py drop <PID> <sighash|signature>
"""
import glob, hashlib, json, os, sys
V = os.path.dirname(os.path.dirname(os.path.abspath(__file__)))
KF = os.path.join(V, "known_findings.json")


def load():
    if os.path.exists(KF):
        return json.load(open(KF))
    return {"description": "Genuine defects of pyopenapi_gen recorded rather than repaired (status=known) and repaired ones "
            "(status=fixed; these suppress nothing). Matched by exact signature = oracle clause + normalised discrepancy.",
            "findings": []}


def save(d):
    d["findings"].sort(key=lambda e: (e["property"], e["status"], e["signature"]))
    with open(KF, "w") as f:
        json.dump(d, f, indent=1)
        f.write("\n")


def h(sig):
    return hashlib.sha1(sig.encode()).hexdigest()[:12]


cmd = sys.argv[1]
d = load()
if cmd == "add":
    pid = sys.argv[2]
    only = set(sys.argv[3:])
    have = {(e["property"], e["signature"]) for e in d["findings"]}
    for p in sorted(glob.glob(os.path.join(V, "replays", pid, "*.json"))):
        r = json.load(open(p))
        if only and os.path.basename(p)[:-5] not in only:
            continue
        if (pid, r["signature"]) in have or r["signature"].endswith("|input-not-in-known-witness-set"):
            continue  # new inputs of a listed signature are merged by addset, they are not new entries
        d["findings"].append({"property": pid, "status": "known", "signature": r["signature"],
                              "what": str(r.get("message") or "")[:300].replace("\n", " "), "site": "",
                              "witness": r["case"]})
        print("added", r["signature"])
    save(d)
elif cmd == "addset":
    # kf.py addset <PID> : merge replays/<PID>-witness-keys.json (written with VERIF_DUMP_FINDINGS=1) into known_sets/
    import gzip
    pid = sys.argv[2]
    only = set(sys.argv[3:])
    dump = json.load(open(os.path.join(V, "replays", pid + "-witness-keys.json")))
    os.makedirs(os.path.join(V, "known_sets"), exist_ok=True)
    byk = {(e["property"], e["signature"]): e for e in d["findings"]}
    for sig, keys in sorted(dump.items()):
        if only and h(sig) not in only:
            continue
        e0 = byk.get((pid, sig))
        if e0 is None:
            print(f"NEW SIGNATURE, not merged (triage it, then `kf.py add {pid}`): {sig}")
            continue
        if e0["status"] == "fixed":
            print(f"REGRESSION of a fixed finding, not merged: {sig}")
            continue
        if e0.get("input_independent"):
            continue  # identified by its call site, matched by signature alone
        rel = f"known_sets/{pid}-{h(sig)}.txt.gz"
        path = os.path.join(V, rel)
        have = set()
        if os.path.exists(path):
            with gzip.open(path, "rt") as f:
                have = set(f.read().split())
        new = {hashlib.sha1(k.encode()).hexdigest()[:12] for k in keys}
        allk = sorted(have | new)
        with gzip.GzipFile(path, "wb", mtime=0) as f:
            f.write(("\n".join(allk) + "\n").encode())
        e = byk.get((pid, sig))
        if e is None:
            e = {"property": pid, "status": "known", "signature": sig, "what": "", "site": "", "witness": keys[0]}
            d["findings"].append(e)
        e["witness_set"] = rel
        e["witness_count"] = len(allk)
        if not e.get("what"):
            e["what"] = f"{sig} - first witness: {keys[0]}"[:300]
        print(f"{sig}: {len(have)} -> {len(allk)} witnesses")
    save(d)
elif cmd == "reset":
    # kf.py reset <PID> : forget every status=known entry (and witness set) of a property, e.g. after its case keys changed
    pid = sys.argv[2]
    for e in list(d["findings"]):
        if e["property"] == pid and e["status"] == "known":
            ws = e.get("witness_set")
            if ws and os.path.exists(os.path.join(V, ws)):
                os.unlink(os.path.join(V, ws))
            d["findings"].remove(e)
    save(d)
elif cmd == "list":
    for e in d["findings"]:
        if len(sys.argv) > 2 and e["property"] != sys.argv[2]:
            continue
        print(e["property"], e["status"], h(e["signature"]), e["signature"], "::", e["what"][:100])
elif cmd in ("fixed", "drop"):
    pid, key = sys.argv[2], sys.argv[3]
    for e in list(d["findings"]):
        if e["property"] == pid and (e["signature"] == key or h(e["signature"]) == key):
            if cmd == "drop":
                d["findings"].remove(e)
            else:
                e["status"] = "fixed"
                e["commit"] = sys.argv[4]
                e["record"] = f"fixed: property={pid} {sys.argv[4]} {e['what']}"
            print(cmd, e["signature"])
    save(d)
