#!/usr/bin/env python3
"""Run the repository's pinned test-suite in a given checkout and compare with /root/.vp/BASELINE.json.

usage: baseline.py [repo_dir]   (default /repo)
exit 0 iff every stable_pass test of the baseline passes.
"""
import json, os, subprocess, sys, tempfile
import xml.etree.ElementTree as ET

repo = os.path.abspath(sys.argv[1] if len(sys.argv) > 1 else "/repo")
base = json.load(open("/root/.vp/BASELINE.json"))
stable = set(base["stable_pass"])
fd, xml = tempfile.mkstemp(suffix=".xml", dir="/dev/shm")
os.close(fd)
env = dict(os.environ)
env.pop("PYOPENAPI_GEN_VERIF", None)
env.pop("PYTHONPATH", None)
cmd = ["/venv/bin/python", "-m", "pytest", "-ra", "-q", "-p", "no:cacheprovider", "--timeout=900",
       "--continue-on-collection-errors", f"--junitxml={xml}"]
p = subprocess.run(cmd, cwd=repo, env=env, stdout=subprocess.PIPE, stderr=subprocess.STDOUT, text=True)
passed = set()
failed = set()
for tc in ET.parse(xml).getroot().iter("testcase"):
    tid = f"{tc.get('classname')}::{tc.get('name')}"
    bad = any(ch.tag in ("failure", "error", "skipped") for ch in tc)
    (failed if bad else passed).add(tid)
os.unlink(xml)
missing = sorted(stable - passed)
print(f"passed={len(passed)} failed_or_skipped={len(failed)} baseline={len(stable)} baseline_missing={len(missing)}")
for m in missing[:40]:
    print("  MISSING", m)
if missing:
    print(p.stdout[-3000:])
sys.exit(1 if missing else 0)
