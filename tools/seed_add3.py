#!/usr/bin/env python3
"""seed_add3.py : store the wave-3 deliverables (/tmp/wtout3/<PID>/{A,B}.diff) as /verif/seeded/<PID>-{E,F}/ (table below)."""
import json, os, shutil
T = {
 ("C01", "A"): ("an operation tag that is a Python keyword or a name the generator reserves (config, email, data, api, filter): the tag client class name is derived at four sites, one of them was 'tidied'", "C01 quick after adding the tag slice (keywords + generator-reserved names + real spellings)"),
 ("C01", "B"): ("discriminated union whose discriminator propertyName has a non-identifier character / an acronym run (@type, $type, @odata.type, objectID) or whose union schema has a reserved name (Filter)", "C01 quick after adding the discriminated-union slice (property spellings x reserved union names)"),
 ("C02", "A"): ("a named schema WITHOUT `type` that has own properties (or allOf) next to a oneOf/anyOf list", "C02 quick after adding schema-level keyword combinations (type written or not x composition x additionalProperties x nullable)"),
 ("C02", "B"): ("a property that is both required and nullable (3.0 nullable, 3.1 type list, or a $ref to a nullable component): emitted with a default", "C02 quick after comparing every field kind x required x default at code level"),
 ("C03", "A"): ("discriminator mapping with two values for one schema + an instance carrying the non-first value", "C03 quick after adding the named discriminated-union kinds (the unchanged tree had its own defect here, fixed by b84e3e7)"),
 ("C03", "B"): ("a map (additionalProperties only) whose value schema is nullable + an instance with a null entry", "C03 quick after adding the map-nullable kinds"),
 ("C04", "A"): ("a path parameter of format date-time (str(datetime) instead of ISO 8601)", "C04 quick as it stood"),
 ("C04", "B"): ("transport built with non-empty default_headers + at least two calls on one client (per-request dict aliases the defaults)", "C17 quick as it stood; C04 quick after giving the pack's client a transport default header"),
 ("C05", "A"): ("response typed `Name | None` (nullable named model / array alias) answered with a present but empty body ({} / [])", "C05 quick after adding nullable all-optional model and nullable array alias response kinds"),
 ("C05", "B"): ("two unnamed arrays of unnamed objects in one document (second one reuses the first one's AnonymousArrayItem)", "C05 quick after adding two different inline-array response kinds"),
 ("C06", "A"): ("operation with no 2xx and no default whose first listed response is a 1xx/3xx + pass-through transport", "C06 quick as it stood"),
 ("C06", "B"): ("non-2xx response labelled JSON whose body is valid JSON but not an object (array, string, null) on the bundled transport", "C06 quick after adding error body kinds"),
 ("C07", "A"): ("YAML with unquoted numeric status codes next to a `default` key (sorted() on mixed int/str keys, swallowed, operation dropped)", "C07 quick after adding `default` next to numeric keys in every rendering"),
 ("C07", "B"): ("path-item-level parameters + an operation-level `$ref` parameter on the same operation (KeyError swallowed, operation dropped)", "C07 quick after driving every operation shape also through component refs"),
 ("C08", "A"): ("a null schema node (YAML property with empty value, media type without schema): enter without exit", "C08 quick as it stood (malformed-node documents, rest clause)"),
 ("C08", "B"): ("exit under the sanitised name while enter used the raw name: names that are not already PascalCase / allOf with sibling properties", "C08 quick as it stood"),
 ("C09", "A"): ("a module with two or more plain `import x` lines (SSE operation) + two runs under different PYTHONHASHSEED", "C09 quick as it stood (process matrix)"),
 ("C09", "B"): ("discriminated union with an explicit mapping naming two variant schemas + different hash seeds", "C09 quick as it stood (process matrix)"),
 ("C10", "A"): ("post-processing on (the default) + nested output package + hand-written sibling .py files the formatter would change", "C10 quick after adding post-processing configurations, a deep nested layout and formatter-sensitive sentinels"),
 ("C10", "B"): ("non-force run over a nested package whose ancestor directories have no __init__.py (namespace packages)", "C10 quick after adding the `namespace` tree kind (patch rebased onto cd8c286, original kept)"),
 ("C11", "A"): ("a client without 5xx (or 4xx) statuses generated into a shared core after a client that registered one (base-class import rendered for the current spec only)", "C11 quick as it stood"),
 ("C11", "B"): ("accumulated exception-class count of 5 / 9 / 13 with an __all__ line long enough to wrap (last row lost)", "C11 quick after adding sweep histories (1..14 classes)"),
 ("C12", "A"): ("nested output package whose last component is a prefix of the shared core's name (acme.api + api_core)", "C12 quick after adding textually related package names"),
 ("C12", "B"): ("a directory between the project root and the output package is a symlink", "C12 quick after adding filesystem layouts of the project root (the unchanged tree had its own defect there, fixed by f346bbd)"),
 ("C13", "A"): ("operation with no explicit 2xx whose streamed payload sits under `default`: the mock becomes a coroutine", "C13 quick after adding the default-only streamed shape"),
 ("C13", "B"): ("JSON request body that is an array of inline objects (bulk endpoint): mock typed List[Any]", "C13 quick after adding the bulk body shape"),
 ("C14", "A"): ("non-discriminated union of allOf-composed variants whose requirements sit in requirement-only members", "C14 quick after adding composed variants; also C02 (required flag)"),
 ("C14", "B"): ("oneOf/anyOf with a `date` member listed before a `date-time` / plain string member + a timestamp payload", "C14 quick after adding date / date-time / string unions"),
 ("C15", "A"): ("a non-streaming operation whose summary/description contains the word AsyncIterator", "C15 quick after adding word-level payloads"),
 ("C15", "B"): ("a property / parameter / operationId with a character that is alphanumeric for `re` but not legal in an identifier (superscript two, subscript two, fractions)", "C15 quick after adding such payloads; C20 quick as it stood"),
 ("C16", "A"): ("a key-mapped dataclass reachable only through three or more stacked containers", "C16 quick after adding container chains of depth 3-4 and keeping the richest inner value in container menus"),
 ("C16", "B"): ("a datetime with sub-millisecond precision", "C16 quick after adding a microsecond value to the datetime leaf"),
 ("C17", "A"): ("query/cookie ApiKeyAuth + a request that carries its own params/cookies", "C17 quick as it stood"),
 ("C17", "B"): ("a str-mixin Enum member as a per-request header value", "C17 quick after adding enum-member and integer header values"),
 ("C18", "A"): ("U+FEFF inside an SSE payload + a chunk boundary directly before it or inside its encoding", "C18 quick after adding a record with U+FEFF inside the payload"),
 ("C18", "B"): ("an SSE event whose first data line is empty (same wrong result for every chunking: only the reference model sees it)", "C18 quick after adding such a record (reference-parser clause)"),
 ("C19", "A"): ("a components/parameters entry whose schema needs a model, referenced from two operations + another order of `paths`", "C19 quick after adding the shared_params representative document"),
 ("C19", "B"): ("an operation declaring two of 200/201/202/204 out of priority order + another key order of `responses`", "C19 quick after adding the multi2xx document and the response-order orbit"),
 ("C20", "A"): ("path-item-level parameters with the same name and different inline enums in two path items", "C20 quick after adding the invented-names namespace"),
 ("C20", "B"): ("two component schemas that derive the same class name, both referenced from a third schema", "C20 quick after adding a referencing holder to the schemas namespace"),
}
for (pid, v), (needs, det) in T.items():
    name = {"A": "E", "B": "F"}[v]
    src = f"/tmp/wtout3/{pid}"
    dst = f"/verif/seeded/{pid}-{name}"
    os.makedirs(dst, exist_ok=True)
    shutil.copy(f"{src}/{v}.diff", f"{dst}/patch.diff")
    if os.path.exists(f"{src}/{v}.orig-0647996.diff"):
        shutil.copy(f"{src}/{v}.orig-0647996.diff", f"{dst}/patch.orig-0647996.diff")
    shutil.copy(f"{src}/demo_{v}.py", f"{dst}/demo.py")
    shutil.copy(f"{src}/notes.md", f"{dst}/notes.md")
    meta = {"property": pid, "id": f"{pid}-{name}", "breaks": pid, "needs_to_manifest": needs, "wave": 3,
            "origin": "fresh sub-agent given only the property text, a scratch worktree at repo HEAD 0647996 and the triggering conditions of the changes of rounds 1 and 2 (to be different from them)",
            "confirmed": {"applies_to": "0647996", "test_suite_with_patch": "tools/baseline.py on the patched worktree: passed=1617 failed_or_skipped=13 baseline_missing=0 - run by me (and by the agent)",
                          "demo_with_patch": "exit 1 (run by me)", "demo_without_patch": "exit 0 (run by me)"},
            "detected_by": det}
    json.dump(meta, open(f"{dst}/meta.json", "w"), indent=1)
print("stored", len(T))
