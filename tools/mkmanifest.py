#!/usr/bin/env python3
"""Regenerate /verif/MANIFEST.json from the table below (one row per property) and validate it."""
import json
import os
import sys

V = os.path.dirname(os.path.dirname(os.path.abspath(__file__)))

# pid -> (level category, technique, level text, level note, design section)
CHECKS = {
    "C20": ("exploration", "bounded exhaustive enumeration of short strings and colliding tuples through the real derivation code",
            "Every string of length <=4 (thorough <=5) over an 11-symbol alphabet plus the keyword table goes through each name-derivation "
            "function; every colliding pair / invented-suffix triple of short strings is placed in each namespace (properties, parameters, schemas, enum members, "
            "operationIds of one client - untagged and under several spellings of its tag -, tag spellings deriving one module; method names the generator derives itself from paths / FastAPI ids under each naming strategy, and two-tag layouts) through the real "
            "generator and read back with ast. Exhaustive within the bound; right level because the counterexamples are short, specific strings.",
            "Trusts CPython's str.isidentifier/keyword tables and ast/compile as the judge of identifiers; strings outside the alphabet/length bound are not covered.",
            "4 C20"),
    "C18": ("model_checking", "exhaustive chunk-schedule enumeration of the real stream decoders (all 2^(n-1) chunkings of short streams, all <=S-split chunkings of longer ones, empty-chunk deviations), differential + reference oracle",
            "Every way of splitting the byte encoding of every <=3-record stream into chunks (all subsets of split points for short streams; all subsets with <=2/3 "
            "points for longer ones; empty chunks as deviation) is delivered to the real iter_sse / iter_sse_events_text / iter_ndjson / iter_bytes through a real "
            "httpx.Response; the items must equal those of the unsplit stream, which must equal a boring reference parser. Chunk-boundary behaviour is a schedule "
            "property, so exhaustive schedule enumeration is the matching level.",
            "httpx's LineDecoder/TextDecoder are part of the subject as shipped in /venv; streams longer than 3 records and >3 simultaneous split points are outside the bound.",
            "4 C18"),
    "C02": ("exploration", "bounded exhaustive enumeration of all small schema graphs (every edge kind, every cycle shape, every declaration order, prefix-related names) against an independent reference resolver",
            "Every graph of G(2,1), G(2,2), G(3,1) (9 edge kinds incl. allOf, self loops, 2- and 3-cycles; all declaration orders; neutral and prefix-related names) is loaded "
            "through the real loader, and for the smaller slices generated to code; the IR field sets and the emitted dataclasses (read through ast) must equal what a boring "
            "reference resolver computes from the raw document (one model per schema, one field per own/inherited property, wire key, required flag, structural kind).",
            "Trusts mc/ref/schema.py as the meaning of a schema document; graphs with more than 3 schemas / 2 edges per schema are outside the bound. "
            "Known defective inputs are listed one by one in known_sets/ (exact witness sets), every other failing input is a violation.",
            "4 C02"),
    "C08": ("model_checking", "explicit-state exploration of the real cycle tracker: every enter/exit transition of the real parser observed on every small graph x depth limit; invariants at top-level boundaries and at rest",
            "Every graph of the bounded space x PYOPENAPI_MAX_DEPTH in {default,1,2,3} and every chain/nesting of depth {L-1,L,L+1,2L,400} is parsed by the real loader with the "
            "tracker's enter/exit functions wrapped: each call is one observed transition of the tracker state machine (states/transitions reported). After each top-level schema "
            "depth==0, stack empty, nothing IN_PROGRESS; at the end every schema terminal and every declared name present; RecursionError/time-out are violations.",
            "Wrapping relies on module attributes unified_enter_schema/unified_exit_schema/_parse_schema being looked up at call time (as they are today). "
            "On top of the direct exploration a TLA+ model of the tracker (mc/tla/CycleTracker.tla) is checked by TLC under 3-4 configurations (depth limits 1/2/3, two name sets) and EVERY distinct edge of each "
            "reachable state graph is replayed on the real unified_enter_schema/unified_exit_schema; every event trace of the real parser must be a path of the model's environment (evidence key coverage.tlc).",
            "4 C08"),
    "C19": ("exploration", "exhaustive orbit enumeration (metamorphic): every rendering of every representative document, every declaration order / property order of every small schema graph, every path permutation; manifests compared across the whole orbit",
            "For every document of the bounded space the complete orbit under re-rendering (JSON / YAML block / YAML flow / YAML with unquoted numeric status keys) and "
            "re-ordering (all N! schema orders, property reversal, all path permutations up to 4 paths, method reversal) is generated with the real loader/generator and the "
            "normalised manifests (models -> fields, clients -> signatures) and, for pure re-renderings, the file hashes are required to be identical. A metamorphic relation has "
            "no expected output, so enumerating complete small orbits is the matching exhaustive check.",
            "Orbits of documents with more than 3 schemas are covered only through the representative documents; manifests are read through ast (mc/observe.py). "
            "Known order-dependent inputs are listed one by one in known_sets/.",
            "4 C19"),
    "C01": ("exploration", "bounded exhaustive enumeration of documents (schema graphs, field shapes, operation shapes, layouts) through the real generator; compile + import of every module in a runtime-only interpreter",
            "Every document of the bounded space (all G(2,1)/G(2,2)/G(3,1) schema graphs, every field shape and reduced pair, every single-parameter / body / response-set "
            "operation shape, 45 layouts x naming strategies x representative documents) is generated; every emitted file is compiled and every module of package and core is "
            "imported in a forked interpreter that has only httpx+cattrs, with every __all__ name resolved. Packed documents are bisected so that each case has its own verdict.",
            "The runtime-only interpreter is validated against a fresh `python -I` process in setup; generation that raises is outside the quantifier; no_postprocess=True.",
            "4 C01"),
    "C12": ("exploration", "bounded exhaustive enumeration of generated packages; static scan of every import statement + import under a generator blocker + byte comparison of runtime files",
            "For every package of the bounded space (layouts x documents, field packs, operation packs, schema graphs - reaching wrapper classes, discriminators, mocks, "
            "streaming templates - plus histories: stale runtime files before a forced regeneration, the same output package generated twice in one process with two core layouts; "
            "every case in a forked process of its own so that generator globals carry history only inside a case) "
            "every Import/ImportFrom node at any depth is classified, every module is imported where the generator is not importable, and every core "
            "runtime module is compared byte for byte with the file shipped in the generator.",
            "Allowed roots: stdlib of the running interpreter, httpx, cattrs/attrs, typing_extensions, the package, its core, their ancestors.",
            "4 C12"),
    "C13": ("exploration", "bounded exhaustive enumeration of operation-shape pairs x tag patterns; introspective comparison of client / Protocol / mock in the runtime-only interpreter",
            "Every ordered pair of 13 operation shapes (plain, optional params, overloads, byte stream, SSE, long wrapped signature, body+params, json+stream mixes, default-only stream, bulk body, OPTIONS, HEAD) x 17 tag patterns is generated, "
            "imported and compared by inspect.signature (names, order, kinds, defaults, annotation text, return), call nature, isinstance against the runtime_checkable Protocol, "
            "NotImplementedError behaviour of every mock method and tag-property parity of MockAPIClient; plus in-process histories (another client generated earlier in the same process).",
            "Annotation equality is textual; documents with more than 3 operations are outside the bound.",
            "4 C13"),
    "C07": ("exploration", "bounded exhaustive enumeration of operation sets x tag patterns x operationId patterns x naming strategies x renderings; behavioural identification of every generated method",
            "Every operation set of the bounded space is generated and every public async method of every tag client reachable from APIClient is called against an in-memory "
            "server; operations are identified by the (method, path) actually hit, never by name. Each operation must be hit by exactly one method on exactly one client per tag, "
            "tags map consistently and injectively to clients, no method is dead or stray, names are valid identifiers and follow the naming strategy.",
            "Tag normalisation (case/punctuation variants are one tag) is re-implemented in the oracle; more than 4 operations per document are outside the bound.",
            "4 C07"),
    "C04": ("exploration", "bounded exhaustive enumeration of operation shapes x every subset of optional arguments x value sets; generated client driven against an in-memory server and compared with a reference wire model",
            "Every operation shape of the bounded space (single parameters over location x required x kind, name styles, pairs of location classes (thorough: every pair of location x required x kind shapes, every body kind x every parameter class, the full 2^n per-argument value product), every body kind incl. multiple "
            "content types, all methods, path templates, path-item vs operation declaration) is called with every subset of its optional arguments and two value sets; the captured "
            "httpx.Request must be exactly one request with the right method, substituted path, each supplied parameter under its spec name in its location, omitted optionals absent, "
            "and a body whose content type and content equal the serialised argument.",
            "Expected wire form is the reference model in mc/props/c04.py (style/explode variants not demanded); values outside the two-value menus are not covered.",
            "4 C04"),
    "C05": ("exploration", "bounded exhaustive enumeration of declared-2xx sets x content kinds x conforming bodies (x chunkings for streams); generated client driven against an in-memory server",
            "For every operation of the bounded space (every single 2xx status x 22 content kinds, default-only, ordered pairs of 2xx declarations, 2xx+default) and every declared 2xx status the "
            "server answers with every conforming body of the kind's instance menu; the returned value (or the items of the async iterator) must be of the annotated type and "
            "re-serialise - by the harness, through wire keys - to the body; content-less responses return None; text/bytes come back as sent.",
            "Instance menus have 1-3 bodies per content kind; streams 1 and 3 items x 3 chunkings; harness-side re-serialisation defines equality.",
            "4 C05"),
    "C06": ("exploration", "exhaustive status sweep: every declared-response set of size<=3 x every status 100..599 outside 2xx x 2 transports, driven through generated methods",
            "For each declared-response set of size<=3 over {200,204,302,404,422,499,500,520,default,default+content} (with default listed last and first), built inline and through components/responses $refs, and for two-tag operations through either tag client, the generated method is called once per non-2xx status 100..599 (400 "
            "statuses) through the bundled HttpxTransport and through a custom transport that returns responses unraised; each call must raise an instance of the package's HTTPError "
            "carrying the status and the response, ClientError for 4xx and ServerError for 5xx. The status dimension is covered completely.",
            "The server body is one fixed JSON object; operations whose package cannot be imported are reported under an `unimportable` clause.",
            "4 C06"),
    "C03": ("exploration", "bounded exhaustive enumeration of generated models x every document of their finite instance menus; structure/unstructure with the package's own converter in the runtime-only interpreter",
            "Every model of the field space (property kinds x required x default, kinds x name styles, pairs of kinds, pairs of name styles, colliding-name families, every kind nested through a reference / array / map of a second model, unions without discriminator "
            "with every required pattern) x every document of its instance menu (per property absent / 2 typical / 1 edge value, all combinations) is structured into the "
            "generated class and unstructured again by the package's bundled converter; the JSON must come back equal (absent optional may become null/[]/{}/declared "
            "default; date-times compared as instants) and the Meta key maps must be inverse bijections onto the spec's property names.",
            "Instance menus are finite (3 values per kind); each reference-valued container kind has its own target schema so that hook registration is not masked by another model of the same document.",
            "4 C03"),
    "C14": ("exploration", "bounded exhaustive enumeration of ordered variant selections x discriminator modes x positions x every conforming payload; decode/encode with the package's own converter",
            "Every ordered selection of 2..3 variants from a 9-variant menu (subset-related, overlapping and all-optional objects, string, integer, array, map), with and without "
            "discriminator (explicit mapping / implicit), nullable and anyOf variants, in alias / field / list-item / named-array-schema position, is generated; every conforming payload of every "
            "variant (plus unmapped discriminator values and invalid payloads of a mapped variant) is decoded and re-encoded; no key or value of the payload may be lost, a "
            "discriminator must select exactly the mapped class and errors must be reported instead of guessed.",
            "Each discriminated union has its own variant schemas (the generator rewrites a variant's discriminator property per union). Unions of more than 3 (thorough 4) variants are outside the bound.",
            "4 C14"),
    "C16": ("model_checking", "bounded exhaustive type-tree / instance enumeration on pristine converters + explicit-state exploration of all operation histories of length<=3 on one shared converter + exhaustive small object graphs for the serialiser",
            "Laws: every root dataclass over type trees of depth<=2 (thorough 3) x 5 wire-key map variants x instance menus, plus 108 recursive type cases (self / mutual cycles through list, dict, optional, direct edges x which class is met first x decode- or encode-first), each on a pristine copy of the bundled converter module: "
            "encode(decode(j))==j, decode(encode(x))==x, wrong-typed/missing leaves are ValueErrors naming the field. History: every sequence of <=3 structure/unstructure "
            "operations over 5 types (nested pair, wrapper class with its own hooks, Union, renamed class) on one converter, last result compared with a pristine converter "
            "(the converter is a global mutated on first use - a state machine whose histories are enumerated). Serialiser: every object graph over <=2/3 dataclass/list/dict "
            "nodes incl. self loops and 2-cycles must terminate JSON-serialisable without null-valued keys.",
            "Pristine converter = the module source executed under a fresh name; leaf menus have 2 values; str/bool/bytes coercions are not demanded to fail.",
            "4 C16"),
    "C17": ("exploration", "exhaustive enumeration of plugin sequences (<=3 from 9 instances, direct and composite) x header sources x caller arguments through the real HttpxTransport, compared with a reference pipeline model",
            "Every ordered sequence of <=3 plugins out of 9 instances (820 sequences; thorough <=4), as a flat composite and as composites nested inside a composite, x transport defaults x per-request headers (str, Enum member, int) x caller "
            "params/json/cookies (incl. falsy bodies) x bearer_token, three requests per transport, "
            "is sent through the real HttpxTransport over httpx.MockTransport; the captured request must carry per-request headers over defaults, each plugin's contribution in "
            "composition order, API keys in their configured location/name, the caller's params/body/cookies unchanged, nothing of an earlier request and no credential the configuration does not call for.",
            "Header names differing only in case: only presence of the highest-precedence value is demanded. Plugins are the bundled ones with fixed constructor arguments.",
            "4 C17"),
    "C11": ("model_checking", "explicit-state breadth-first search over generation histories with the real generator as transition function (state = project tree, canonicalised; fixpoint or depth bound), invariant = every generated client still imports",
            "For each of 6 shared-core layouts (top-level, one, two and three packages deep, vendor-prefixed names, core owned by the first client) the state graph of histories gen(client, spec, force) is "
            "explored breadth first: each transition copies the source state's project tree and runs the real generator in a process of its own (level-synchronous search, results merged in task order); states are canonicalised to (client -> last spec, "
            "exception classes in the core, registry contents) and deduplicated; quick runs to fixpoint for 2 clients, thorough to depth 4 for 3 clients x 4 specs. In every newly "
            "reached state every client generated so far is imported in the runtime-only interpreter (every symbol it takes from the core must exist).",
            "Canonicalisation argument: importability depends only on the canonical state because the copied runtime files are identical in every generation; imports are "
            "checked when a canonical state is first reached.",
            "4 C11"),
    "C10": ("fault_enumeration", "exhaustive single-fault enumeration: every filesystem-mutating event of a generation (numbered through a CPython audit hook) fails once, plus stage-level faults, x force x existing-tree x layout; whole-tree snapshot oracle",
            "For every configuration (force on/off x existing tree absent / equal / different / partially present / core missing / namespace-package ancestors x embedded / sibling / nested / "
            "three-level / symlinked-inside-the-project layouts; plus post-processing switched on for fault-free runs and stage faults) the fault-free run "
            "numbers the W mutating filesystem events the generator performs (open-for-write, mkdir, rename, remove, rmtree, ... in the project tree and in its temp dir); "
            "then every k in 1..W is re-run with an OSError injected at the k-th event, plus faults before/after fetch, load and each emitter. A recursive "
            "(type,size,sha256,mtime) snapshot of the project root with sentinel files around the packages is compared before/after: non-force runs over an existing "
            "package must leave it byte- and mtime-identical and succeed only on a match; in every mode writes stay inside package, core and ancestor __init__.py files.",
            "Faults are whole-operation ENOSPC errors raised before the operation (no torn writes); one fault per run; thorough adds two-run histories (crashed forced run, then non-force run).",
            "4 C10"),
    "C09": ("model_checking", "exhaustive product of nondeterminism sources in separate interpreter processes + explicit-state BFS over generate/edit/delete histories with the real generator as transition function and a differential (forced-run-on-a-copy) oracle",
            "(a) Each representative document is generated in its own process for every combination of PYTHONHASHSEED {0,1,2}, fresh vs warm process, two output roots and "
            "two clocks (24 processes per document) and all trees must be byte-identical. (b) Per layout a breadth-first search over histories of depth<=3 of "
            "gen(A|A+|B, force|noforce), edit, delete (states = project tree content hash, transitions = real generator runs) checks for every non-force run: if a forced "
            "run on a copy of the same state leaves package+core unchanged the run must succeed and touch nothing, otherwise it must raise and touch nothing; and every "
            "forced run without other clients must equal a generation into an empty project. (c) 64 environment pairs (temp directory / project root through symlinks x post-processing) "
            "for a forced generation followed by a non-force re-run, and 42 hand-made drifts of one generated file (indentation only, blank lines only, spacing, one character, deleted line) "
            "that the non-force run must notice. Generations inside a history never reset generator state; reference generations run in pristine forked children.",
            "Hash seed, process history, wall clock and output root are the owned nondeterminism sources; id()-derived names are covered through fresh-vs-warm processes.",
            "4 C09"),
    "C15": ("exploration", "complete position x payload matrix through the real generator; AST-skeleton comparison against the benign twin + evaluation of meaning-carrying literals",
            "Every one of 35 text-bearing positions of a reference document x every payload of a 57-entry hostile dictionary (quotes, triple quotes, backslashes, line "
            "terminators incl. CR/NEL/LS, control characters, non-ASCII, emoji, keyword, long lines and long+special combinations) is generated; every emitted file must "
            "parse and compile, its tree of AST node types must equal that of the benign twin (class/module members and dict entries as multisets), and enum values, wire "
            "keys, parameter names, defaults and discriminator values must evaluate to exactly the original strings. Thorough adds all strings of length<=3 over 4 "
            "critical characters at every position and all position pairs for 4 payloads.",
            "The payload dictionary is finite; 'random Unicode strings' of the property text are replaced by this matrix.",
            "4 C15"),
}

NOT_YET = {}


def main():
    props = [json.loads(l) for l in open(os.path.join(V, "properties.jsonl"))]
    checks = []
    na = []
    for p in props:
        pid = p["id"]
        if pid in CHECKS and os.path.exists(os.path.join(V, "mc", "props", pid.lower() + ".py")):
            cat, tech, text, note, ref = CHECKS[pid]
            checks.append({
                "property_id": pid,
                "quick_cmd": f"./check {pid} --tier quick",
                "thorough_cmd": f"./check {pid} --tier thorough",
                "evidence_file": f"evidence/{pid}.json",
                "replay_cmd_template": f"./check {pid} --replay {{path}}",
                "engine": "mc-kernel",
                "level_claimed": {"category": cat, "text": text, "design_ref": "DESIGN.md section " + ref},
                "level_note": note,
                "technique": tech,
            })
        else:
            na.append({"property_id": pid, "reason": NOT_YET.get(pid, "check not built yet in this round (design in DESIGN.md section 4); "
                                                                 "nothing is claimed for it until its exhaustive explorer exists")})
    man = {
        "version": 1,
        "setup_cmd": "./setup.sh",
        "hooks": {
            "guard": "PYOPENAPI_GEN_VERIF",
            "enable": "no source hooks are needed: checks import /repo/src directly (PYTHONPATH) and wrap module attributes from the harness; "
                      "./check exports PYOPENAPI_GEN_VERIF=1 for future add-only hooks",
            "baseline_off_cmd": "cd /repo && /venv/bin/python -m pytest -ra -q -p no:cacheprovider --timeout=900 --continue-on-collection-errors",
            "source_commits": [],
            "add_only": True,
        },
        "engines": [
            {"name": "mc-kernel", "path": "mc/kernel.py", "serves_properties": [c["property_id"] for c in checks],
             "kind_free_text": "hand-written bounded-exhaustive explorer for Python: complete case enumeration over a 16-process pool, "
                               "explicit-state BFS over histories with the real transition functions, fault/chunk-schedule enumeration, "
                               "runtime-only forked interpreter for generated clients"},
        ],
        "checks": checks,
        "notes": "All checks run /repo's current working tree (PYTHONPATH=/repo/src) with /venv/bin/python; scratch on /dev/shm. "
                 "Known genuine defects are listed in known_findings.json and reported as KNOWN-FINDING lines.",
        "not_applicable": na,
    }
    with open(os.path.join(V, "MANIFEST.json"), "w") as f:
        json.dump(man, f, indent=1)
        f.write("\n")
    try:
        import jsonschema

        jsonschema.validate(man, json.load(open("/root/.vp/MANIFEST.schema.json")))
        print("MANIFEST valid;", len(checks), "checks,", len(na), "not_applicable")
    except ImportError:
        print("jsonschema not available; not validated")


if __name__ == "__main__":
    main()
