#!/bin/bash
# runall.sh [tier]  : run every registered check, one line per check
TIER="${1:-quick}"
cd "$(dirname "$0")/.."
for i in 01 02 03 04 05 06 07 08 09 10 11 12 13 14 15 16 17 18 19 20; do
  s=$(date +%s)
  out=$(./check C$i --tier $TIER 2>&1); rc=$?
  e=$(( $(date +%s) - s ))
  k=$(echo "$out" | grep -c "^KNOWN-FINDING")
  v=$(echo "$out" | grep -c "^VIOLATION")
  echo "C$i rc=$rc known=$k violations=$v wall=${e}s"
  if [ $rc -ne 0 ]; then echo "$out" | grep -v "^KNOWN" | grep -v "^  \.\." | cut -c1-300 | head -12; fi
done
