#!/bin/bash
# seed_confirm7.sh <PID> <A|B> : confirm a wave-7 deliverable in the scratch worktree /tmp/wt/my:
#   patch applies to clean HEAD; demo exits 0 without / 1 with; pinned suite stays green with the patch; then run the quick check of <PID>.
PID="$1"; V="$2"; WT=${WT:-/tmp/wt/my}; SRC=/tmp/wtout7/$PID
git -C $WT checkout -q -- . && git -C $WT clean -fdq
PYTHONPATH=$WT/src /venv/bin/python $SRC/demo_$V.py >/dev/null 2>&1; echo "demo_without=$?"
git -C $WT apply $SRC/$V.diff || { echo "PATCH DOES NOT APPLY"; exit 3; }
PYTHONPATH=$WT/src /venv/bin/python $SRC/demo_$V.py >/dev/null 2>&1; echo "demo_with=$?"
if [ -z "$SKIP_SUITE" ]; then python3 /verif/tools/baseline.py $WT | head -3; fi
cd /verif
for P in $PID $ALSO; do
VERIF_REPO=$WT ./check $P --tier ${TIER:-quick} 2>&1 | grep -v "^KNOWN-FINDING" | grep -v "^  \.\." | cut -c1-400 | head -${LINES_MAX:-10}
done
git -C $WT checkout -q -- . && git -C $WT clean -fdq
