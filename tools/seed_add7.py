#!/usr/bin/env python3
"""seed_add7.py : store the wave-7 deliverables (/tmp/wtout7/<PID>/{A,B}.diff) as /verif/seeded/<PID>-{M,N}/ ; the confirmation (demo with / without, pinned
suite with the patch) is read from /tmp/wtout7/<PID>/confirm_<V>.log written by tools/seed_confirm7.sh."""
import json, os, shutil, sys
T = {
 ("C03", "A"): "a oneOf/anyOf without discriminator whose variants overlap (detailed / brief) + an ordering: a brief value structured before a detailed one of the same union type (same array or an earlier call in the process)",
 ("C03", "B"): "an optional property that declares a schema default + an instance that spells out a value equal to that default (the key is left out on unstructure)",
 ("C06", "A"): "an operation whose responses map lists `default` BEFORE an explicit 4xx/5xx code, called through a transport that returns non-2xx unraised",
 ("C06", "B"): "an operation that carries two different tags, called through the client of its second tag (the Protocol stub runs: no request, returns None)",
 ("C08", "A"): "a cycle whose closing back-reference arrives exactly at the depth limit (ring of 3 with PYOPENAPI_MAX_DEPTH=3, ring of 150 at the default): the name is never popped",
 ("C08", "B"): "a composition keyword (oneOf/anyOf/allOf) inside anonymous nesting deeper than the depth limit: load aborts with ValueError",
 ("C11", "A"): "a shared core that sits directly in the project root (depth 0) + a second client with other error statuses",
 ("C11", "B"): "a client force-regenerated from a spec in which one status was swapped for another (404,500 -> 410,500) while no other client uses the dropped code",
 ("C14", "A"): "a non-discriminated union of >=2 object variants where the right variant has an optional array/object property (default_factory) that the payload omits",
 ("C14", "B"): "a NAMED array schema over a discriminated union whose earlier variant accepts a later variant's payload",
 ("C15", "A"): "an object schema without properties whose short (<=72 chars) description ends in a double quote or a backslash",
 ("C15", "B"): "a property / parameter / operationId written capitalised or upper-case whose lower-case form is a Python keyword (Class, From, IMPORT)",
 ("C16", "A"): "two mutually recursive key-mapped dataclasses whose back edge is a container or direct field + a value that descends through the back edge",
 ("C16", "B"): "one class declaring two wire keys that differ only in letter case (userId / userid)",
 ("C17", "A"): "a CompositeAuth nested inside another CompositeAuth with >=2 inner plugins that write the same slot",
 ("C17", "B"): "a query- or cookie-located ApiKeyAuth placed BEFORE a header-writing plugin in a CompositeAuth",
 ("C18", "A"): "one SSE line delivered in three or more chunks (two consecutive chunks without a newline), through iter_sse_events_text",
 ("C18", "B"): "an NDJSON stream with a line that holds only white space (keep-alive / padding)",
 ("C20", "A"): "two operations of one tag client whose DERIVED method names are identical character for character (GET /user-data + GET /user_data without operationId; FastAPI ids under the clean strategy)",
 ("C20", "B"): "a two-tag operation that collides with another operation it shares only its non-first tag with (get_user [Users, Admin] + getUser [Admin])",
}
for (pid, v), needs in T.items():
    name = {"A": "M", "B": "N"}[v]
    src = f"/tmp/wtout7/{pid}"
    dst = f"/verif/seeded/{pid}-{name}"
    c = open(f"{src}/confirm_{v}.log").read()
    assert "demo_without=0" in c and "demo_with=1" in c and "baseline_missing=0" in c, (pid, v, c[:300])
    suite = [l for l in c.splitlines() if l.startswith("passed=")][0]
    os.makedirs(dst, exist_ok=True)
    shutil.copy(f"{src}/{v}.diff", f"{dst}/patch.diff")
    shutil.copy(f"{src}/demo_{v}.py", f"{dst}/demo.py")
    shutil.copy(f"{src}/notes.md", f"{dst}/notes.md")
    meta = {"property": pid, "id": f"{pid}-{name}", "breaks": pid, "needs_to_manifest": needs, "wave": 7,
            "origin": "fresh sub-agent given only the property text, a scratch worktree at repo HEAD f2253aa and the triggering conditions of the changes of rounds 1-6 (to be different from them)",
            "confirmed": {"applies_to": "f2253aa", "test_suite_with_patch": "tools/baseline.py on the patched worktree: " + suite + " - run by me (and by the agent)",
                          "demo_with_patch": "exit 1 (run by me)", "demo_without_patch": "exit 0 (run by me)"},
            "detected_by": "see seeded/MATRIX.md"}
    json.dump(meta, open(f"{dst}/meta.json", "w"), indent=1)
print("stored", len(T))
